#!/bin/sh
# Builds /verif/.venv: a venv of /venv's interpreter that sees /venv's site-packages (repo deps) plus
# crosshair-tool + z3-solver installed offline from the wheelhouse. Idempotent.
set -e
cd "$(dirname "$0")"
if [ -x .venv/bin/python ] && .venv/bin/python -c 'import crosshair, z3, cvc5, jsonpickle' 2>/dev/null; then
  exit 0
fi
rm -rf .venv
/venv/bin/python -m venv .venv
SP=$(.venv/bin/python -c 'import site; print(site.getsitepackages()[0])')
echo "import site; site.addsitedir('/venv/lib/python3.12/site-packages')" > "$SP/zz_repo_deps.pth"
PIP_NO_INDEX=1 .venv/bin/pip install -q --no-index --find-links /opt/veriftools/wheels crosshair-tool z3-solver cvc5 >/dev/null
.venv/bin/python -c 'import crosshair, z3, cvc5, jsonpickle; print("verif venv ready: crosshair", crosshair.__version__ if hasattr(crosshair,"__version__") else "", "z3", z3.get_version_string())'
