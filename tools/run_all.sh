#!/bin/sh
# tools/run_all.sh [tier] [ids...] : run checks sequentially against /repo, one summary line each
TIER="${1:-quick}"; shift
IDS="${@:-C01 C02 C03 C04 C05 C06 C07 C08 C09 C10 C11 C12 C13 C14 C15 C16 C17 C18 C19 C20}"
cd /verif
for id in $IDS; do
  s=$(date +%s)
  out=$(timeout ${RUN_ALL_TIMEOUT:-3600} ./check $id --tier $TIER 2>&1); rc=$?
  e=$(date +%s)
  echo "$id rc=$rc wall=$((e-s))s :: $(echo "$out" | grep -v '^KNOWN' | tail -1 | cut -c1-200)"
  echo "$out" | grep -E "^(KNOWN-FINDING|VIOLATION|INCONCLUSIVE)" | cut -c1-260 | head -5
done
