#!/usr/bin/env python3
"""Real-thread reproduction of the C04/C05 finaliser-vs-discard race that the schedule exploration found (schedule
p1 = 18 of harness.C04_threads.threads, discard_by = watchdog).  Run with PB_SRC=<tree>:  on the tree before fix
"a recording is finalized exactly once when discard races with the end of the operation" the cassette sees BOTH abort
and save for one recording; on the fixed tree exactly one finaliser.
The finaliser of start_recording reads `is_recording_sample_forced` inside the racy window; a subclass parks the main
thread there until the watchdog thread has called discard_recording()."""
import os, sys, threading
sys.path.insert(0, os.environ.get('PB_SRC', '/repo'))
import logging; logging.disable(logging.CRITICAL)
from playback.tape_recorder import TapeRecorder
from playback.tape_cassette import TapeCassette
from playback.recordings.memory.memory_recording import MemoryRecording

class Spy(TapeCassette):
    def __init__(self): self.log = []
    def create_new_recording(self, category): self.log.append('create'); return MemoryRecording('%s/1' % category)
    def _save_recording(self, recording): self.log.append('save')
    def abort_recording(self, recording): self.log.append('abort'); recording.close()
    def get_recording(self, rid): raise KeyError(rid)
    def iter_recording_ids(self, *a, **k): return iter(())
    def extract_recording_category(self, rid): return rid.split('/')[0]

in_window, discarded = threading.Event(), threading.Event()
class Parked(TapeRecorder):
    @property
    def is_recording_sample_forced(self):
        if threading.current_thread() is threading.main_thread() and self._active_recording is not None and finishing[0]:
            in_window.set(); discarded.wait(5)
        return self._force_sample
finishing = [False]
spy = Spy(); tr = Parked(spy); tr.enable_recording()
class Op(object):
    @tr.operation()
    def execute(self):
        finishing[0] = True
        return 7
def watchdog():
    in_window.wait(5); tr.discard_recording(); discarded.set()
t = threading.Thread(target=watchdog); t.start()
try:
    r = ('returned', Op().execute())
except BaseException as ex:
    r = ('raised', type(ex).__name__)
discarded.set(); t.join()
fin = [e for e in spy.log if e in ('save', 'abort')]
print('operation', r, '| cassette saw', spy.log)
print('VIOLATED' if (len(fin) != 1 or r != ('returned', 7)) else 'ok: exactly one finaliser')
sys.exit(1 if (len(fin) != 1 or r != ('returned', 7)) else 0)
