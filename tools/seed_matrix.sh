#!/bin/sh
# tools/seed_matrix.sh [seed dirs...] : run every filed seed against its property's quick check (scratch copy, PB_SRC);
# prints one line per seed: CAUGHT (exit 1 + VIOLATION) / MISSED (exit 0) / INCONCLUSIVE (exit 3) / NOAPPLY
cd "$(dirname "$0")/.."
SEEDS="${@:-$(ls -d seeded/C*-* | sort)}"
for d in $SEEDS; do
  name=$(basename $d); prop=${name%-*}
  checks="$prop"
  [ -f $d/also_check ] && checks="$checks $(cat $d/also_check)"
  for c in $checks; do
    s=$(date +%s)
    out=$(TAIL=400 timeout 2400 tools/try_patch.sh $d/patch.diff $c 2>&1)
    e=$(date +%s)
    if echo "$out" | grep -q "patch does not apply"; then r=NOAPPLY
    elif echo "$out" | grep -q "^VIOLATION property=$c"; then r=CAUGHT
    elif echo "$out" | grep -q "^INCONCLUSIVE"; then r=INCONCLUSIVE
    else r=MISSED; fi
    echo "$name vs $c: $r ($((e-s))s) $(echo "$out" | grep -E '^counterexample|^INCONCLUSIVE' | head -1 | cut -c1-220)"
  done
done
