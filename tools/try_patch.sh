#!/bin/sh
# tools/try_patch.sh <patch.diff> <property id> [tier]   -- apply a seeded change to /repo, run one check, undo it.
P="$(readlink -f "$1")"; ID="$2"; TIER="${3:-quick}"
cd /repo || exit 9
if ! git diff --quiet; then echo "/repo has uncommitted changes"; exit 9; fi
git apply "$P" || { echo "patch does not apply"; exit 9; }
cd /verif && ./check "$ID" --tier "$TIER" 2>&1 | tail -${TAIL:-6}
rc=$?
git -C /repo checkout -- . 
git -C /repo clean -fdq playback 2>/dev/null
exit $rc
