#!/bin/sh
# tools/try_patch.sh <patch.diff> <property id> [tier]
# Applies a seeded change to a scratch copy of /repo (outside /repo and /verif), runs one check against it through
# PB_SRC, removes the copy.  Equivalent to `git -C /repo apply` + check + `git -C /repo checkout -- .` but lets
# several seeds be tried concurrently.  Evidence of such runs goes to the scratch copy, never to /verif/evidence.
V="$(cd "$(dirname "$0")/.." && pwd)"
P="$(readlink -f "$1")"; ID="$2"; TIER="${3:-quick}"
S=$(mktemp -d /tmp/pbseed.XXXXXX)
git -C /repo archive HEAD | tar -x -C "$S" || exit 9
( cd "$S" && git init -q . && git apply "$P" ) || { echo "patch does not apply"; rm -rf "$S"; exit 9; }
cd "$V" && PBSYM_EVIDENCE_DIR="$S/.evidence" PBSYM_REPLAY_DIR="$V/replays/seeds" PB_SRC="$S" ./check "$ID" --tier "$TIER" 2>&1 | tail -${TAIL:-6}
rm -rf "$S"
