#!/usr/bin/env python3
"""tools/seed_append.py <matrix log> : append/replace rows of seeded/RESULTS.md for the seeds named in a seed_matrix log
(used for rounds after the table was first built) and set detected_by / matrix in their meta.json."""
import json, os, re, sys, collections
ROOT = os.path.dirname(os.path.dirname(os.path.abspath(__file__)))
res = collections.OrderedDict()
for line in open(sys.argv[1]):
    m = re.match(r'^(C\d\d-[A-Z]) vs (C\d\d): (\w+) \((\d+)s\) ?(.*)$', line.strip())
    if m:
        res[(m.group(1), m.group(2))] = (m.group(3), int(m.group(4)))
path = os.path.join(ROOT, 'seeded', 'RESULTS.md')
rows = open(path).read().rstrip('\n').split('\n')
for s in sorted(set(k[0] for k in res)):
    d = os.path.join(ROOT, 'seeded', s)
    meta = json.load(open(os.path.join(d, 'meta.json')))
    per = ['%s: **%s** (%d s)' % (c, r[0], r[1]) for (sd, c), r in res.items() if sd == s]
    meta['detected_by'] = [c for (sd, c), r in res.items() if sd == s and r[0] == 'CAUGHT'] or None
    meta['matrix'] = dict((c, r[0]) for (sd, c), r in res.items() if sd == s)
    json.dump(meta, open(os.path.join(d, 'meta.json'), 'w'), indent=1)
    row = '| %s | %s | %s | %s |' % (s, meta['breaks_property'], (meta.get('summary') or '').replace('|', '/')[:260], '; '.join(per))
    rows = [r for r in rows if not r.startswith('| %s |' % s)] + [row]
head, body = rows[:4], sorted(rows[4:])
open(path, 'w').write('\n'.join(head + body) + '\n')
print('updated', sorted(set(k[0] for k in res)))
