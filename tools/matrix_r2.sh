#!/bin/sh
cd "$(dirname "$0")/.."
exec tools/seed_matrix.sh $(ls -d seeded/C??-[CD] | sort)
