#!/bin/sh
cd "$(dirname "$0")/.."
exec tools/seed_matrix.sh $(ls -d seeded/C??-[CD] seeded/C04-A seeded/C17-A seeded/C18-A | sort)
