#!/usr/bin/env python3
"""Regenerates /verif/MANIFEST.json from the harness modules present (claimed) and NOT_APPLICABLE below."""
import json, os, sys, importlib
ROOT = os.path.dirname(os.path.dirname(os.path.abspath(__file__)))
sys.path.insert(0, ROOT); sys.path.insert(0, '/repo')
props = [json.loads(l) for l in open(os.path.join(ROOT, 'properties.jsonl'))]
NOT_APPLICABLE = {}
PENDING = 'check not built yet (build in progress); to be decided by CrossHair/z3 symbolic execution of the real code as described in DESIGN.md'
TECH = 'bounded symbolic execution of the real Python code with CrossHair 0.0.110 + z3 5.1.0 (all paths within stated bounds; SMT verdict), counterexamples replayed on the unstubbed code'
checks, na = [], []
for p in props:
    pid = p['id']
    path = os.path.join(ROOT, 'harness', pid + '.py')
    if pid in NOT_APPLICABLE:
        na.append({'property_id': pid, 'reason': NOT_APPLICABLE[pid]}); continue
    if not os.path.exists(path):
        na.append({'property_id': pid, 'reason': PENDING}); continue
    src = open(path).read()
    doc = src.split('"""')[1].strip() if '"""' in src else ''
    import re
    def lit(name):
        m = re.search(r'^%s = (\[.*?\])\n(?=\S)' % name, src, re.S | re.M)
        return eval(m.group(1)) if m else []
    checks.append({
        'property_id': pid,
        'quick_cmd': './check %s --tier quick' % pid,
        'thorough_cmd': './check %s --tier thorough' % pid,
        'evidence_file': '/verif/evidence/%s.json' % pid,
        'replay_cmd_template': './check %s --replay {path}' % pid,
        'engine': 'pbsym',
        'technique': re.search(r"^TECHNIQUE = '(.*)'$", src, re.M).group(1).replace("\\'", "'") if re.search(r"^TECHNIQUE = '(.*)'$", src, re.M) else TECH,
        'level_claimed': {'category': 'model_checking',
                          'text': 'Bounded, solver-decided: CrossHair executes the repository\'s own functions symbolically and z3 '
                                  'exhausts every path within the bounds written into the evidence file (CONFIRMED for every shard), '
                                  'or returns a concrete counterexample that is replayed on the real code before VIOLATION is printed. '
                                  'Not a proof: nothing is claimed outside the bounds. ' + doc.split('\n\n')[0].replace('\n', ' '),
                          'design_ref': 'DESIGN.md section 3, ' + pid},
        'level_note': 'Trusted: CrossHair\'s models of Python builtins, z3; environment models listed as stubs in the evidence '
                      '(each validated against the real library where one is executable offline). Assumptions: ' + '; '.join(lit('ASSUMPTIONS'))[:900],
    })
m = {
 'version': 1, 'setup_cmd': './setup.sh',
 'hooks': {'guard': 'OPTIBUS_PLAYBACK_VERIF',
           'enable': 'no source hooks exist: all instrumentation is namespace patching from the harness process and an in-memory AST rewrite of /repo\'s current source; the guard variable is reserved and unused',
           'baseline_off_cmd': 'cd /repo && /venv/bin/python -m pytest -ra -q -p no:cacheprovider --timeout=900 --continue-on-collection-errors',
           'source_commits': [], 'add_only': True},
 'engines': [{'name': 'pbsym', 'path': 'pbsym/', 'serves_properties': [c['property_id'] for c in checks],
              'kind_free_text': 'CrossHair+z3 symbolic execution of real playback modules with environment models (E1), cooperative AST rewrite for schedules (E2), direct z3/cvc5 queries generated from the AST (E4), replay on real code (E5)'}],
 'checks': checks, 'not_applicable': na,
 'notes': 'exit 0 = all shards CONFIRMED; exit 1 + VIOLATION = reproduced counterexample; exit 3 + INCONCLUSIVE = timeout/unknown/non-reproducing counterexample (never reported as success). Known findings: known_findings.json.'
}
json.dump(m, open(os.path.join(ROOT, 'MANIFEST.json'), 'w'), indent=1)
print('claimed', [c['property_id'] for c in checks]); print('not applicable', [x['property_id'] for x in na])
