#!/usr/bin/env python3
"""tools/confirm_seed.py <Cxx> <A|B>: confirm a sub-agent's seeded change in its scratch worktree (suite still passes the
105 baseline tests, demo passes without / fails with the patch) and file it under /verif/seeded/<Cxx>-<A|B>/."""
import json, os, re, shutil, subprocess, sys
pid, letter = sys.argv[1], sys.argv[2]
base_dir = sys.argv[3] if len(sys.argv) > 3 else '/tmp/wt'
dest_letter = sys.argv[4] if len(sys.argv) > 4 else letter
wt, out = '%s/%s' % (base_dir, pid), '%s/out_%s' % (base_dir, pid)
patch, demo = '%s/patch_%s.diff' % (out, letter), '%s/demo_%s.py' % (out, letter)
base = set(json.load(open('/root/.vp/BASELINE.json'))['stable_pass'])
def sh(cmd, **kw):
    return subprocess.run(cmd, shell=True, cwd=wt, stdout=subprocess.PIPE, stderr=subprocess.STDOUT, **kw)
def demo_run():
    r = sh('/venv/bin/python %s' % demo, timeout=600)
    txt = r.stdout.decode('utf-8', 'replace')
    return r.returncode, txt[-400:]
sh('git checkout -- . && git clean -fdq playback')
rc0, t0 = demo_run()
ok_wo = rc0 == 0 and 'FAIL' not in t0.upper().replace('FAILED 0', '')
r = sh('git apply %s' % patch)
assert r.returncode == 0, r.stdout
junit = '%s/junit_%s_%s.xml' % (base_dir, pid, letter)
s = sh('/venv/bin/python -m pytest -q -p no:cacheprovider --timeout=900 --continue-on-collection-errors --junitxml=%s' % junit, timeout=1800)
import xml.etree.ElementTree as ET
passed = set()
for tc in ET.parse(junit).getroot().iter('testcase'):
    if not list(tc):
        passed.add('%s::%s' % (tc.get('classname'), tc.get('name')))
missing = sorted(base - passed)
rc1, t1 = demo_run()
sh('git checkout -- . && git clean -fdq playback')
os.remove(junit)
res = {'property': pid, 'patch': os.path.basename(patch), 'suite_baseline_tests_missing_with_patch': missing,
       'suite_tail': s.stdout.decode()[-200:].strip().splitlines()[-1:], 'demo_without_patch_rc': rc0,
       'demo_with_patch_rc': rc1, 'demo_with_patch_tail': t1[-300:]}
good = (not missing) and rc0 == 0 and rc1 != 0
print(json.dumps(res, indent=1)); print('CONFIRMED' if good else 'NOT CONFIRMED')
if good:
    d = '/verif/seeded/%s-%s' % (pid, dest_letter)
    os.makedirs(d, exist_ok=True)
    shutil.copy(patch, d + '/patch.diff'); shutil.copy(demo, d + '/demo_%s.py' % dest_letter)
    notes = open(out + '/notes.md').read() if os.path.exists(out + '/notes.md') else ''
    open(d + '/agent_notes.md', 'w').write(notes)
    meta = {'breaks_property': pid, 'written_by': 'independent sub-agent given only the property text and a scratch worktree',
            'needs_to_manifest': '(see agent_notes.md, section for patch %s)' % letter,
            'confirmed_by_me': {'worktree': wt + ' (scratch, removed afterwards)',
                                'suite': 'pytest with patch: all 105 baseline tests still pass (%s)' % res['suite_tail'],
                                'demo_without_patch': 'exit %d' % rc0, 'demo_with_patch': 'exit %d' % rc1},
            'detected_by': None}
    json.dump(meta, open(d + '/meta.json', 'w'), indent=1)
sys.exit(0 if good else 1)
