#!/usr/bin/env python3
"""tools/reconfirm_seed.py <seeded/Cxx-Y>: re-confirm a filed seed against /repo's current HEAD in a scratch copy under
/tmp (removed afterwards): demo passes without the patch, all 105 baseline tests pass with it, demo fails with it."""
import json, os, subprocess, sys, tempfile, shutil, glob
import xml.etree.ElementTree as ET
d = os.path.abspath(sys.argv[1])
base = set(json.load(open('/root/.vp/BASELINE.json'))['stable_pass'])
S = tempfile.mkdtemp(prefix='pbseed.')
try:
    subprocess.run('git -C /repo archive HEAD | tar -x -C %s && cd %s && git init -q .' % (S, S), shell=True, check=True)
    demo = [f for f in glob.glob(d + '/demo_*.py')][0]
    def sh(cmd, t=1800):
        return subprocess.run(cmd, shell=True, cwd=S, stdout=subprocess.PIPE, stderr=subprocess.STDOUT, timeout=t)
    r0 = sh('/venv/bin/python %s' % demo)
    a = sh('git apply %s/patch.diff' % d)
    if a.returncode != 0:
        print('PATCH DOES NOT APPLY', a.stdout.decode()[-300:]); sys.exit(2)
    s = sh('/venv/bin/python -m pytest -q -p no:cacheprovider --timeout=900 --continue-on-collection-errors --junitxml=%s/junit.xml' % S)
    passed = set('%s::%s' % (tc.get('classname'), tc.get('name')) for tc in ET.parse(S + '/junit.xml').getroot().iter('testcase') if not list(tc))
    missing = sorted(base - passed)
    r1 = sh('/venv/bin/python %s' % demo)
    good = r0.returncode == 0 and r1.returncode != 0 and not missing
    print(os.path.basename(d), 'demo w/o patch rc', r0.returncode, '| with patch rc', r1.returncode, '| baseline tests missing', missing, '->', 'CONFIRMED' if good else 'NOT CONFIRMED')
    if good:
        m = json.load(open(d + '/meta.json'))
        m.setdefault('reconfirmed_against_repo_head', []).append(subprocess.run('git -C /repo log -1 --format=%h', shell=True, stdout=subprocess.PIPE).stdout.decode().strip())
        json.dump(m, open(d + '/meta.json', 'w'), indent=1)
    sys.exit(0 if good else 1)
finally:
    shutil.rmtree(S, ignore_errors=True)
