#!/usr/bin/env python3
"""tools/seed_table.py <matrix logs...>: fold seed_matrix logs (later files override) into seeded/RESULTS.md and the
`detected_by` field of each seeded/<id>/meta.json."""
import json, os, re, sys, collections
ROOT = os.path.dirname(os.path.dirname(os.path.abspath(__file__)))
res = collections.OrderedDict()
for f in sys.argv[1:]:
    for line in open(f):
        m = re.match(r'^(C\d\d-[A-F]) vs (C\d\d): (\w+) \((\d+)s\) ?(.*)$', line.strip())
        if m:
            res[(m.group(1), m.group(2))] = (m.group(3), int(m.group(4)), m.group(5))
seeds = sorted(set(k[0] for k in res))
lines = ['# Seeded changes vs checks (quick tier, scratch copy of /repo HEAD + patch, `tools/try_patch.sh`)', '',
         '| seed | breaks | what it needs to manifest (agent\'s words, abridged) | result per check |', '|---|---|---|---|']
for s in seeds:
    d = os.path.join(ROOT, 'seeded', s)
    meta = json.load(open(os.path.join(d, 'meta.json')))
    notes = open(os.path.join(d, 'agent_notes.md')).read() if os.path.exists(os.path.join(d, 'agent_notes.md')) else ''
    per = ['%s: **%s** (%d s)' % (c, r[0], r[1]) for (sd, c), r in res.items() if sd == s]
    caught = [c for (sd, c), r in res.items() if sd == s and r[0] == 'CAUGHT']
    meta['detected_by'] = caught or None
    meta['matrix'] = dict((c, r[0]) for (sd, c), r in res.items() if sd == s)
    json.dump(meta, open(os.path.join(d, 'meta.json'), 'w'), indent=1)
    first = ''
    m = re.search(r'(?is)patch %s.*?\n(.*?)(?:\n#|\Z)' % s[-1], notes)
    summary = (meta.get('summary') or '').strip()
    lines.append('| %s | %s | %s | %s |' % (s, meta['breaks_property'], summary.replace('|', '/')[:260], '; '.join(per)))
open(os.path.join(ROOT, 'seeded', 'RESULTS.md'), 'w').write('\n'.join(lines) + '\n')
tot = len(seeds); c = sum(1 for s in seeds if any(r[0] == 'CAUGHT' for (sd, _), r in res.items() if sd == s))
print('%d seeds, %d caught by at least one check' % (tot, c))
for s in seeds:
    if not any(r[0] == 'CAUGHT' for (sd, _), r in res.items() if sd == s):
        print('  not caught:', s, [(c, r[0]) for (sd, c), r in res.items() if sd == s])
