"""C17 - The sampling policy alone decides which recordings are kept.

Real code executed symbolically: the `operation` decorator, start_recording's finaliser, force_sample_recording,
discard_recording, _should_sample_active_recording, _reset_active_recording, recording_params; S3TapeCassette
_save_recording/_should_sample.  Symbolic: every flag of two consecutive operations of two differently configured
classes on ONE recorder, exact rational rates and draws, operation outcome (return / raise / BaseException), where the
force and discard requests are issued (operation body or intercepted body, in either order); for S3 the calculator's
ratio, the draw and the compressed size.  Oracle: the documented decision table, and *exactly one* draw consumed iff
the decision needs it.
"""
from pbsym import ctx
from pbsym.ctx import B
from pbsym.models.quiet import num, RandomFactory, Clock
from pbsym.models.spy import SpyCassette

import playback.tape_recorder as trmod
from playback.tape_recorder import TapeRecorder

PROPERTY = 'C17'
TECHNIQUE = 'CrossHair/z3 symbolic execution of the sampling decision through the real decorators with exact rational rates/draws and a spy cassette; decision-table oracle with draw accounting'
FUNCTIONS = ['playback/tape_recorder.py::TapeRecorder.start_recording',
             'playback/tape_recorder.py::TapeRecorder._should_sample_active_recording',
             'playback/tape_recorder.py::TapeRecorder.force_sample_recording',
             'playback/tape_recorder.py::TapeRecorder.discard_recording',
             'playback/tape_recorder.py::TapeRecorder._reset_active_recording',
             'playback/tape_recorder.py::TapeRecorder._operation',
             'playback/tape_recorder.py::TapeRecorder.recording_params',
             'playback/tape_recorder.py::TapeRecorder._execute_operation_func',
             'playback/tape_cassettes/s3/s3_tape_cassette.py::S3TapeCassette._should_sample',
             'playback/tape_cassettes/s3/s3_tape_cassette.py::S3TapeCassette._save_recording']
STUBS = ['random.Random -> factory model: every construction replays the same symbolic draw stream (determinism from '
         'the seed is the contract of random.Random); draws are exact rationals in [0,1)',
         'time.time -> model clock; numbers formatted into log lines are quiet rationals',
         'cassette -> spy (create/save/abort log); S3: boto3 bucket model, serializer token model, compress -> blob of '
         'symbolic size']
ASSUMPTIONS = ['random.Random(seed) is deterministic and uniform (stdlib); the long-run kept fraction and seed '
               'reproducibility follow from per-decision exactness + that contract - derived, not solved',
               'rates/draws are exact rationals n/d with one shared denominator: covers every pair of finite doubles; '
               'NaN/inf rates excluded']
OUTSIDE = ['histories longer than two operations per recorder (the second run starts from the state the first left, '
           'C09 covers state reset in general)', 'NaN / infinite sampling rates']

_BASEEXC = KeyboardInterrupt


class Boom(Exception):
    pass


def _expected(skipped, rate, den, force, ignore, discard, draws, used):
    """reference decision table -> (events, draws consumed)"""
    if skipped:
        return [], used
    if discard:
        return ['create', 'abort'], used
    if force and not ignore:
        return ['create', 'save'], used
    if rate >= den:
        return ['create', 'save'], used
    d = draws[used]
    return ['create', 'save' if d <= rate else 'abort'], used + 1


def _make_op(tr, cfg, journal):
    """a class with the real decorators whose operation issues force/discard requests as configured"""
    skipped, rate, den, force, ignore, discard, outcome, force_in_body, discard_first = cfg

    @tr.recording_params(sampling_rate=num(rate, den), ignore_enforced_sampling=ignore, skipped=skipped)
    class Op(object):
        @tr.operation()
        def execute(self):
            journal.append('op')
            if discard and discard_first:
                tr.discard_recording()
            if force:
                if force_in_body:
                    self.read()
                else:
                    tr.force_sample_recording()
            if discard and not discard_first:
                tr.discard_recording()
            if outcome == 1:
                raise Boom()
            if outcome == 2:
                raise _BASEEXC()
            return 5

        @tr.intercept_input('in')
        def read(self):
            tr.force_sample_recording()
            return 1
    return Op


def two_operations(sk1: bool, rate1: int, f1: bool, ig1: bool, di1: bool, out1: int, fb1: bool, df1: bool,
                   sk2: bool, rate2: int, f2: bool, ig2: bool, di2: bool, out2: int,
                   draw1: int, draw2: int, den: int) -> bool:
    """
    pre: den > 0 and 0 <= draw1 < den and 0 <= draw2 < den
    pre: 0 <= out1 <= 2 and 0 <= out2 <= 2
    post: _
    """
    ctx.begin()
    # shards fix some flags concretely (the rest stays symbolic); a flag absent from the shard keeps its parameter
    sk1, f1, di1, out1 = ctx.S('sk1', sk1), ctx.S('f1', f1), ctx.S('di1', di1), ctx.S('out1', out1)
    sk2, f2, di2, out2 = ctx.S('sk2', sk2), ctx.S('f2', f2), ctx.S('di2', di2), ctx.S('out2', out2)
    trmod.time = Clock()
    fac = RandomFactory([draw1, draw2], den)
    trmod.Random = fac
    spy = SpyCassette()
    tr = TapeRecorder(spy, random_seed=7)
    tr.enable_recording()
    journal = []
    cfg1 = (sk1, rate1, den, f1, ig1, di1, out1, fb1, df1)
    cfg2 = (sk2, rate2, den, f2, ig2, di2, out2, False, False)
    # a force request issued after a discard finds no active recording: it is a no-op by the documentation
    eff_f1 = f1 and not (di1 and df1)
    Op1 = _make_op(tr, cfg1, journal)
    Op2 = _make_op(tr, cfg2, journal)
    for Op in (Op1, Op2):
        try:
            Op().execute()
        except Boom:
            pass
        except _BASEEXC:
            pass
    rng = fac.made[0] if fac.made else None
    ev1, used = _expected(sk1, rate1, den, eff_f1, ig1, di1, [draw1, draw2], 0)
    n1 = len(ev1)
    ev2, used = _expected(sk2, rate2, den, f2, ig2, di2, [draw1, draw2], used)
    got = spy.events()
    if used > 0:
        ctx.mark('draw')
    if f1 and di1 and not sk1 and not sk2 and rate2 < den:
        ctx.mark('forced-then-discarded-then-sampled')
    ok = (len(fac.made) >= 1 and got[:n1] == ev1 and got[n1:] == ev2 and sum(g.calls for g in fac.made) == used
          and journal == ['op', 'op'] and not tr.is_recording_sample_forced)
    return ctx.done(ok, 'draw')


def same_seed_same_decisions(rate: int, draw1: int, draw2: int, den: int, k: int) -> bool:
    """
    pre: den > 0 and 0 <= draw1 < den and 0 <= draw2 < den and 0 <= rate < den and 0 <= k <= 1
    post: _
    """
    # two recorders built with the same seed decide identically, however many draws the first one already consumed
    ctx.begin()
    trmod.time = Clock()
    fac = RandomFactory([draw1, draw2], den)
    trmod.Random = fac
    logs = []
    for n_ops in (k + 1, 1):
        spy = SpyCassette()
        tr = TapeRecorder(spy, random_seed=7)
        tr.enable_recording()
        Op = _make_op(tr, (False, rate, den, False, False, False, 0, False, False), [])
        for _ in range(n_ops):
            Op().execute()
        logs.append(spy.events())
    ctx.mark('two-recorders')
    first = ['create', 'save' if draw1 <= rate else 'abort']
    ok = len(fac.made) >= 2 and logs[0][:2] == first and logs[1] == first
    return ctx.done(ok, 'two-recorders')


def s3_size_sampling(ratio: int, draw1: int, draw2: int, den: int, size: int, size2: int, has_calc: bool) -> bool:
    """
    pre: den > 0 and 0 <= draw1 < den and 0 <= draw2 < den and size >= 0 and size2 >= 0
    post: _
    """
    # storage-level sampling: same rule; one draw per decision that needs it; a second cassette built later is
    # reproducible from the seed (restarts the stream) whatever the first one consumed
    ctx.begin()
    from pbsym.models import s3env
    import playback.tape_cassettes.s3.s3_tape_cassette as s3m
    from playback.tape_cassettes.s3.s3_tape_cassette import S3TapeCassette
    fac = RandomFactory([draw1, draw2], den)
    s3m.Random = fac
    env = s3env.install(size=size)
    seen = []

    def calc(category, recording_size, recording):
        seen.append((category, recording_size))
        return num(ratio, den)
    results = []
    for n in range(2):
        before = len(env.store.log)
        cas = S3TapeCassette('bkt', key_prefix='p', read_only=False, sampling_calculator=calc if has_calc else None)
        rec = cas.create_new_recording('Cat')
        rec.set_data('k', 1)
        cas.save_recording(rec)
        results.append(len(env.store.log) - before)
    if not has_calc:
        return ctx.done(results == [2, 2] and all(r.calls == 0 for r in fac.made), 's3-draw')
    keep = ratio >= den or draw1 <= ratio
    need = 0 if ratio >= den else 1
    if need:
        ctx.mark('s3-draw')
    ok = (len(fac.made) >= 2 and results == [2 if keep else 0] * 2 and sum(r.calls for r in fac.made) == 2 * need
          and len(seen) == 2 and all(c == 'Cat' and (s == size if not ctx.REAL else s > 0) for c, s in seen))
    return ctx.done(ok, 's3-draw')


def _t(timeout, bounds=None, shards=None):
    return {'bounds': bounds or {}, 'timeout': timeout, 'shards': shards or [{}], 'witness_timeout': 90}


_OP1 = [{'sk1': a, 'f1': b, 'di1': c, 'out1': d} for a in (False, True) for b in (False, True) for c in (False, True)
        for d in (0, 1, 2)]
# quick: the second operation is a plain sampled probe (symbolic rate / ignore flag / outcome), the first is arbitrary
_Q2 = [dict(x, sk2=False, f2=False, di2=False) for x in _OP1]
# thorough: the full product of both operations' flags
_T2 = [dict(x, sk2=a, f2=b, di2=c) for x in _OP1 for a in (False, True) for b in (False, True) for c in (False, True)]

CONDITIONS = [
    {'fn': 'two_operations', 'nontrivial': 'draw',
     'what': 'full decision table for two consecutive operations of two classes on one recorder (force must not leak)',
     'tiers': {'quick': _t(300, None, _Q2), 'thorough': _t(900, None, _T2)}},
    {'fn': 'same_seed_same_decisions', 'nontrivial': 'two-recorders',
     'what': 'decisions reproducible from the seed: a second recorder restarts the stream',
     'tiers': {'quick': _t(200), 'thorough': _t(600)}},
    {'fn': 's3_size_sampling', 'nontrivial': 's3-draw',
     'what': 'S3 size-based sampling calculator: same rule, one draw, calculator sees the compressed size',
     'tiers': {'quick': _t(300), 'thorough': _t(900)}},
]
