"""C04 - Recording is transparent to the recorded service.

Real code executed symbolically: every decorator of tape_recorder.py in recording mode (pass-through tests, key
failure handling, handler / copy failure handling, exception re-raise, save failure swallowed, metadata extractor
failure swallowed, discard / force requests) through to the cassette.  Symbolic: the program, the environment values
and raising flags, the way/place the operation terminates, the step of one or two injected faults (the fault kinds are
the shard), metadata-extractor behaviour.  Oracle: the UNDECORATED TWIN of the same program on the same environment
objects: the decorated run must hand the caller the same return value (identical object for non-int values) or the
identical exception object, every call site must see identical returns/exceptions, and the wrapped bodies must have
executed exactly the same sequence with the same arguments.  With recording disabled or the class skipped the spy
cassette must see no call at all.
"""
from typing import List
from pbsym import ctx, rig as rigm, script as sc
from pbsym.ctx import B

PROPERTY = 'C04'
TECHNIQUE = 'CrossHair/z3 symbolic execution of the decorated program against its undecorated twin under symbolic fault plans; thread schedules explored by solver-driven enumeration over a cooperative AST rewrite of tape_recorder.py'
FUNCTIONS = ['playback/tape_recorder.py::TapeRecorder._operation',
             'playback/tape_recorder.py::TapeRecorder._currently_in_interception',
             'playback/tape_recorder.py::TapeRecorder.start_recording',
             'playback/tape_recorder.py::TapeRecorder._execute_operation_func',
             'playback/tape_recorder.py::TapeRecorder._intercept_input',
             'playback/tape_recorder.py::TapeRecorder._intercept_output',
             'playback/tape_recorder.py::TapeRecorder._record_output',
             'playback/tape_recorder.py::TapeRecorder._execute_func_and_record_interception',
             'playback/tape_recorder.py::TapeRecorder._enter_interception_context',
             'playback/tape_recorder.py::TapeRecorder._add_post_operation_metadata',
             'playback/tape_recorder.py::TapeRecorder.discard_recording',
             'playback/tape_recorder.py::TapeRecorder.force_sample_recording',
             'playback/tape_recorder.py::TapeRecorder._serializable_exception_form',
             'playback/tape_cassette.py::TapeCassette.save_recording']
STUBS = ['jsonpickle -> token model that raises on values marked unserializable; time/uuid -> models; cassette = spy '
         'around the real in-memory cassette, optionally failing on save']
ASSUMPTIONS = ['tolerated fault kinds are those listed in the property; the cassette\'s abort_recording does not raise']
OUTSIDE = ['nested / concurrent operations on one recorder (the code asserts)', 'thread schedules with more than P '
           'preemptions (P = 1 quick, 2 thorough) or finer than statement / attribute-load granularity', 'programs longer than the bound']

FAULT_KINDS = ['key_arg', 'key_resolver', 'in_handler', 'out_handler', 'unser_value', 'discard_op', 'discard_body',
               'force_op', 'force_body']


def _can_fire(fault, op):
    kind = sc.KINDS[op // 2]
    if fault == 'key_arg':
        return kind in ('A', 'B', 'S', 'R', 'C', 'D', 'H', 'M')
    if fault == 'key_resolver':
        return kind == 'R'
    if fault == 'in_handler':
        return kind == 'H'
    if fault == 'out_handler':
        return kind == 'U'
    if fault == 'unser_value':
        return kind in sc.INPUT_KINDS and kind != 'N'
    return True


def _ltail():
    first = ctx.S('first', -1)
    if first is None:
        return 0
    return B('L') - (1 if first >= 0 else 0)


def transparent(script: List[int], vals: List[int], exc: List[bool], how: int, where: int, in_body: bool,
                f1_at: int, f2_at: int) -> bool:
    """
    pre: len(script) <= _ltail() and all(s in B('OPS') for s in script)
    pre: len(vals) == 8 and len(exc) == len(B('EXCSLOTS')) and 0 <= how <= 2 and -1 <= where < B('L')
    pre: 0 <= f1_at < B('L') and 0 <= f2_at < B('L')
    post: _
    """
    return _transparent(script, vals, exc, how, where, in_body, f1_at, f2_at, 0, False)


def operation_flavours(script: List[int], vals: List[int], how: int, extractor: int, class_level: bool) -> bool:
    """
    pre: len(script) <= _ltail() and all(s in B('OPS') for s in script)
    pre: len(vals) == 8 and 0 <= how <= 2 and extractor in B('EXTRACTORS')
    post: _
    """
    # metadata extractor that succeeds / raises / returns junk, on instance and class-level operations
    return _transparent(script, vals, [], how, -1, False, 0, 0, extractor, class_level)


def _transparent(script, vals, exc, how, where, in_body, f1_at, f2_at, extractor, class_level):
    ctx.begin()
    script = [ctx.pick(x, B('OPS')) for x in script]
    first = ctx.S('first', -1)
    if first is not None and first >= 0:
        script = [first] + script
    flags = list(exc)
    exc = [False] * 8
    for slot_, flag in zip(B('EXCSLOTS'), flags):
        exc[slot_] = flag
    how = ctx.pick(how, (0, 1, 2))
    where = ctx.pick(where, range(-1, B('L')))
    f1_at = ctx.pick(f1_at, range(B('L')))
    f2_at = ctx.pick(f2_at, range(B('L')))
    extractor = ctx.pick(extractor, B('EXTRACTORS'))
    if extractor in (2, 3, 4, 5, 6):
        ctx.mark('extractor-misbehaves')
    f1, f2 = ctx.S('f1'), ctx.S('f2')
    mode = ctx.S('mode', 'on')          # on | disabled | skipped
    # combinations denoting the same run as another one are pruned (nothing is dropped)
    if how == 0 and (where != -1 or in_body):
        return ctx.done(True)
    if where >= len(script) or (where == -1 and in_body):
        return ctx.done(True)
    if f1 is None and f1_at != 0:
        return ctx.done(True)
    if f2 is None and f2_at != 0:
        return ctx.done(True)
    if f1 and (f1_at >= len(script) or not _can_fire(f1, script[f1_at])):
        return ctx.done(True)
    if f2 and (f2_at >= len(script) or not _can_fire(f2, script[f2_at])):
        return ctx.done(True)
    if ctx.excluded('C04-discard-in-flight', (f1 == 'discard_body' or f2 == 'discard_body')):
        return True

    def mkplan():
        p = sc.Plan(script, vals, exc)
        if ctx.S('unser_result') and how == 0:
            p.final = 3
        if how:
            if where < 0:
                p.final = how
            else:
                p.term_at, p.term_kind, p.term_in_body = where, how, in_body
        p.faults = [(k, at) for k, at in ((f1, f1_at), (f2, f2_at)) if k]
        p.extractor = extractor
        p.extractor_val = vals[0]
        p.class_level = class_level
        return p
    plan = mkplan()
    r = rigm.build('mem', spy=True, fail_save=bool(ctx.S('fail_save')))
    tr = r.tr
    params = {}
    if ctx.S('copy'):
        params['copy_data_on_intercepion'] = True
    if mode == 'disabled':
        tr.disable_recording()
    if mode == 'skipped':
        params['skipped'] = True
    run1 = sc.Run(tr)
    out1 = sc.execute(sc.make_service(tr, plan, run1, params=params or None), plan, run1)
    # the undecorated twin on the same environment objects (same exception objects, same unserializable values)
    runT = sc.Run(sc.NULL)
    outT = sc.execute(sc.make_service(sc.NULL, plan, runT), plan, runT)
    ok = sc.same_outcome(out1, outT, identity=True)
    ok = ok and sc.same_sitelog(run1.sitelog, runT.sitelog, identity=True)
    ok = ok and run1.journal == runT.journal
    if mode != 'on':
        ok = ok and r.cassette.log == []
    if run1.fired:
        ctx.mark('fault-fired')
    return ctx.done(ok, 'fault-fired' if (f1 or f2) else None)


_o = sc.op_of
_QOPS = [_o('A', 1), _o('H'), _o('N'), _o('O', 1), _o('U')]
_TOPS = [_o('A', 0), _o('A', 1), _o('S', 1), _o('P'), _o('R'), _o('C', 1), _o('D', 1), _o('H'), _o('N'), _o('O', 1), _o('T'), _o('U')]


def _shards(singles, pairs, ops, extras):
    out = []
    for f in singles:
        for first in ops:
            out.append({'f1': f, 'f2': None, 'first': first})
    for f1, f2 in pairs:
        for first in ops:
            out.append({'f1': f1, 'f2': f2, 'first': first})
    for e in extras:
        for first in ops:
            out.append(dict(e, first=first))
    return out


_X = [{'f1': None, 'f2': None, 'mode': 'disabled'}, {'f1': None, 'f2': None, 'mode': 'skipped'},
      {'f1': None, 'f2': None, 'fail_save': True}, {'f1': 'unser_value', 'f2': None, 'copy': True},
      {'f1': None, 'f2': None, 'unser_result': True}]
_QS = _shards([None, 'key_arg', 'in_handler', 'out_handler', 'unser_value', 'discard_body'],
              [('key_arg', 'discard_op')], _QOPS, _X) + [{'f1': 'key_resolver', 'f2': None, 'first': _o('R')},
                                                         {'f1': 'force_body', 'f2': None, 'first': _o('A', 1)}]
_TOPS2 = [_o('A', 1), _o('R'), _o('H'), _o('O', 1), _o('U')]
_TPAIRS = [('key_arg', 'discard_op'), ('in_handler', 'out_handler'), ('key_arg', 'force_body'), ('discard_body', 'key_arg'),
           ('unser_value', 'discard_op'), ('in_handler', 'discard_body'), ('out_handler', 'discard_body'),
           ('key_resolver', 'unser_value'), ('force_op', 'discard_op'), ('force_body', 'in_handler'), ('key_arg', 'out_handler'),
           ('discard_op', 'discard_body')]
# thorough: everything of the quick tier plus eleven further pairs of faults (programs <= 2; 869 s measured); programs
# of three opcodes did not finish within the time budget and are not claimed
_TS = _QS + _shards([], _TPAIRS[1:], _QOPS, [])
_W = {'f1': 'key_arg', 'f2': None, 'first': _o('A', 1)}
_QB = {'L': 2, 'OPS': _QOPS, 'EXCSLOTS': [1], 'EXTRACTORS': [0, 1, 2, 3]}
_TB = {'L': 2, 'OPS': _QOPS, 'EXCSLOTS': [1], 'EXTRACTORS': [0, 1, 2, 3, 4, 5, 6]}
CONDITIONS = [
    {'fn': 'transparent', 'nontrivial': 'fault-fired',
     'what': 'decorated run vs undecorated twin under single faults and pairs at every step; sharded by (fault kinds, first opcode)',
     'tiers': {'quick': {'bounds': _QB, 'timeout': 500, 'shards': _QS, 'witness_shard': _W},
               'thorough': {'bounds': _QB, 'timeout': 900, 'shards': _TS, 'witness_shard': _W}}},
    {'fn': 'threads', 'module': 'harness.C04_threads', 'nontrivial': 'preempted',
     'what': 'two worker threads calling interceptions inside one operation (cooperative rewrite of the real '
             'tape_recorder.py): every schedule with <= P preemptions, discard issued by a worker / an intercepted body / '
             'the operation; sharded by who discards',
     'tiers': {'quick': {'bounds': {'STEPS': 110, 'FORCED': 4}, 'timeout': 600,
                         'shards': [{'discard_by': d, 'preemptions': 1, 'bucket': b} for d in (None, 'worker', 'body', 'operation', 'watchdog')
                                    for b in ([0, 30], [30, 60], [60, 110])],
                         'witness_shard': {'discard_by': 'worker', 'preemptions': 1, 'bucket': [0, 110]}},
               'thorough': {'bounds': {'STEPS': 110, 'FORCED': 4}, 'timeout': 900,
                            'shards': [{'discard_by': d, 'preemptions': 1, 'bucket': b} for d in (None, 'worker', 'body', 'operation', 'watchdog')
                                       for b in ([0, 30], [30, 60], [60, 110])],
                            'witness_shard': {'discard_by': 'worker', 'preemptions': 1, 'bucket': [0, 110]}}}},
    {'fn': 'operation_flavours', 'nontrivial': 'extractor-misbehaves',
     'what': 'metadata extractor succeeding / raising / returning junk on instance and class-level operations',
     'tiers': {'quick': {'bounds': _QB, 'timeout': 300, 'shards': [{'f1': None, 'f2': None, 'first': f} for f in [None, _o('A', 1), _o('O', 1)]],
                         'witness_shard': {'f1': None, 'f2': None, 'first': _o('A', 1)}},
               'thorough': {'bounds': _QB, 'timeout': 900, 'shards': [{'f1': None, 'f2': None, 'first': f} for f in [None, _o('A', 1), _o('O', 1)]],
                            'witness_shard': {'f1': None, 'f2': None, 'first': _o('A', 1)}}}},
]
