"""C19 - The studio plays each recording once under its own category's tuning.

Real code executed symbolically: PlaybackStudio.play / _group_recording_ids_by_categories / _play_category,
find_matching_recording_ids, Equalizer.run_comparison + _play_and_compare_recording (in-process), TapeRecorder.play, and
each cassette's extract_recording_category / iter_recording_ids / get_recording.  Symbolic: the category TEXTS (1-2
chars, prefix-related ones included), how many recordings each category has, the order of an explicit id list
(permutation index) or lookup-driven selection, which categories' tuners fail, the order in which the per-category
result generators are advanced.  Oracle with tagged tuning functions: every selected id is played exactly once by its
own category's playback function and judged by its own extractor and comparator; result keys are the categories in the
documented order; a failing tuner's exception is that category's value and nothing else changes.
"""
from typing import List
from pbsym import ctx, rig as rigm
from pbsym.ctx import B
from pbsym.models import mp as mpm
from pbsym.models.assoc import AssocDict

PROPERTY = 'C19'
TECHNIQUE = 'solver-enumerated studio scenarios (category pairs, id orders, failing tuners, generator interleavings) executed on the real studio/equalizer/cassettes, CrossHair/z3 forking on the scenario variables'
FUNCTIONS = ['playback/studio/studio.py::PlaybackStudio.play',
             'playback/studio/studio.py::PlaybackStudio._group_recording_ids_by_categories',
             'playback/studio/studio.py::PlaybackStudio._play_category',
             'playback/studio/recordings_lookup.py::find_matching_recording_ids',
             'playback/studio/equalizer.py::Equalizer.run_comparison',
             'playback/studio/equalizer.py::Equalizer._play_and_compare_recording',
             'playback/tape_recorder.py::TapeRecorder.play',
             'playback/tape_cassettes/in_memory/in_memory_tape_cassette.py::InMemoryTapeCassette.extract_recording_category',
             'playback/tape_cassettes/file_based/file_based_tape_cassette.py::FileBasedTapeCassette.extract_recording_category',
             'playback/tape_cassettes/s3/s3_tape_cassette.py::S3TapeCassette.extract_recording_category']
STUBS = ['multiprocessing objects created by Equalizer.__init__ -> model (in-process execution only)',
         'jsonpickle / fs / S3 / uuid / time models as in C07/C10; in-memory store -> association list']
ASSUMPTIONS = ['category texts contain none of "/", ".", "{", "}"']
OUTSIDE = ['dedicated-process execution inside the studio (C08/C13 cover the equalizer)', 'more than 2 categories x 2 recordings']

DURATION = '_tape_recorder_recording_duration'
PERMS = [[0, 1, 2, 3], [3, 2, 1, 0], [0, 2, 1, 3], [2, 0, 3, 1], [1, 3, 0, 2], [3, 0, 2, 1]]


class TunerError(Exception):
    pass


def routing(pair: int, n1: int, n2: int, perm: int, fail1: bool, fail2: bool, order: List[bool]) -> bool:
    """
    pre: 0 <= pair < len(B('PAIRS')) and 1 <= n1 <= 2 and 1 <= n2 <= 2 and perm in B('PERMS') and len(order) == 4
    post: _
    """
    from playback.studio.studio import PlaybackStudio
    from playback.studio.equalizer_tuning import EqualizerTuner, EqualizerTuning
    from playback.studio.equalizer import EqualityStatus, ComparatorResult
    from playback.studio.recordings_lookup import RecordingLookupProperties
    ctx.begin()
    # the two category texts come from a list of (prefix-related and unrelated) pairs, concrete by fork: grouping and
    # sorting symbolic texts costs thousands of solver queries per path
    c1, c2 = B('PAIRS')[ctx.pick(pair, range(len(B('PAIRS'))))]
    n1 = ctx.pick(n1, (1, 2))
    n2 = ctx.pick(n2, (1, 2))
    perm = ctx.pick(perm, B('PERMS'))
    kind = ctx.S('cassette')
    explicit = bool(ctx.S('explicit'))
    if not explicit and perm != B('PERMS')[0]:
        return ctx.done(True)            # the permutation only exists for explicit id lists
    fail1, fail2 = (True if fail1 else False), (True if fail2 else False)
    if fail1 and fail2:
        return ctx.done(True)
    with ctx.untraced():
        ok, marks = _routing(c1, c2, n1, n2, perm, fail1, fail2, order, kind, explicit)
    for m in marks:
        ctx.mark(m)
    return ctx.done(ok, 'interleaved')


def _routing(c1, c2, n1, n2, perm, fail1, fail2, order, kind, explicit):
    from playback.studio.studio import PlaybackStudio
    from playback.studio.equalizer_tuning import EqualizerTuner, EqualizerTuning
    from playback.studio.equalizer import EqualityStatus, ComparatorResult
    from playback.studio.recordings_lookup import RecordingLookupProperties
    marks = []
    r = rigm.build(kind)
    cas = r.cassette
    tr = r.tr
    if kind == 'mem' and not ctx.REAL:
        cas._recordings = AssocDict()
    world = mpm.World([], [])
    holder = {}
    mpm.install(world, holder)
    saved = []
    for c, n in ((c1, n1), (c2, n2)):
        for i in range(n):
            rec = cas.create_new_recording(c)
            rec.set_data('output: _tape_recorder_operation #1.output', {'args': [i], 'kwargs': {}})
            rec.add_metadata({DURATION: 1})
            cas.save_recording(rec)
            saved.append((c, rec.id))
    journal = []

    class Tuner(EqualizerTuner):
        def create_category_tuning(self, category):
            journal.append(('tune', category))
            if (category == c1 and fail1) or (category == c2 and fail2):
                raise TunerError(category)

            def playback_function(recording):
                journal.append(('play', category, recording.id))

            def extractor(outputs):
                journal.append(('extract', category))
                return len(outputs)

            def comparator(a, b):
                journal.append(('compare', category))
                return ComparatorResult(EqualityStatus.Equal, category)
            return EqualizerTuning(playback_function, extractor, comparator)
    if explicit:
        ids = [rid for _, rid in saved]
        ids = [ids[j] for j in PERMS[perm] if j < len(ids)]
        studio = PlaybackStudio([], Tuner(), tr, recording_ids=ids)
    else:
        studio = PlaybackStudio([c2, c1], Tuner(), tr, lookup_properties=RecordingLookupProperties(None))
    result = studio.play()
    cats = list(result.keys())
    if explicit:
        ok = cats == sorted([c1, c2])
    else:
        ok = cats == [c2, c1]
    # advance the per-category generators in the order chosen by the solver
    gens = {}
    got = {}
    for c in cats:
        v = result[c]
        if isinstance(v, Exception):
            got[c] = v
        else:
            gens[c] = iter(v)
            got[c] = []
    for idx in range(4):
        live = [c for c in cats if c in gens]
        if not live:
            break
        if len(live) == 1:
            first_one = True
        else:
            with ctx.resumed():
                first_one = True if order[idx] else False
            if not first_one:
                marks.append('interleaved')
        c = live[0] if (first_one or len(live) == 1) else live[1]
        try:
            got[c].append(next(gens[c]))
        except StopIteration:
            del gens[c]
    for c in list(gens):
        for x in gens[c]:
            got[c].append(x)
    for c, failing in ((c1, fail1), (c2, fail2)):
        mine = [rid for cc, rid in saved if cc == c]
        if failing:
            ok = ok and isinstance(got.get(c), TunerError)
            ok = ok and not any(j[0] == 'play' and j[1] == c for j in journal)
            marks.append('failing-tuner')
        else:
            comps = got.get(c)
            ok = ok and isinstance(comps, list) and sorted(x.recording_id for x in comps) == sorted(mine)
            ok = ok and all(x.comparator_status.message == c and x.comparator_status.equality_status.name == 'Equal'
                            for x in comps)
            played = [j[2] for j in journal if j[0] == 'play' and j[1] == c]
            ok = ok and sorted(played) == sorted(mine)
    # nothing was played under a foreign category's function
    ok = ok and all(any(cc == j[1] and rid == j[2] for cc, rid in saved) for j in journal if j[0] == 'play')
    if c1.startswith(c2) or c2.startswith(c1):
        marks.append('prefix-related')
    return ok, marks


_WORDS = ['a', 'b', 'aa', 'a_', '_a', 'ab', '_']
_SH = [{'cassette': c, 'explicit': e} for c in ('mem', 'file', 's3') for e in (True, False)]
CONDITIONS = [
    {'fn': 'routing', 'nontrivial': 'interleaved',
     'what': 'two categories with symbolic texts, explicit id list in any order or lookup-driven, failing tuners, '
             'generators advanced in any interleaving; sharded by (cassette, selection mode)',
     'tiers': {'quick': {'bounds': {'PAIRS': [['a', 'aa'], ['a_', 'a'], ['b', 'a'], ['a', 'a_b']], 'PERMS': [1, 3]}, 'timeout': 600, 'shards': _SH,
                         'witness_shard': {'cassette': 'mem', 'explicit': True}},
               'thorough': {'bounds': {'PAIRS': [[x, y] for x in _WORDS for y in _WORDS if x != y], 'PERMS': [0, 1, 2, 3, 4, 5]},
                            'timeout': 8000, 'shards': _SH,
                            'witness_shard': {'cassette': 'mem', 'explicit': True}}}},
]
