"""C06 - Input lookup keys identify calls by alias and captured argument values only.

Real code executed symbolically: TapeRecorder._input_interception_key (capture selection by position / name, self
stripping, kwargs sorting, key template) and _format_alias.  Symbolic: the alias text, the leaves of positional and
keyword argument trees (shape = shard: int / str / None / bool / list / tuple / dict / set / object / nested), the
values of arguments EXCLUDED from capture, the insertion order of kwargs and of dict arguments, the iteration order of
set arguments (model of PYTHONHASHSEED: an arbitrary order chosen by the solver).  Oracle: (a) same alias + structurally
equal captured arguments => equal keys whatever the orders and the excluded arguments; (b) a different alias or a
different captured leaf => different keys.  E4: the key template is read from the source AST and the framing question
"two different (alias, args-json, kwargs-json) triples give the same key text" is posed to cvc5/z3 string solvers.
"""
import ast
import json
import os
import subprocess
import sys
import time
from pbsym import ctx
from pbsym.ctx import B
from pbsym.models import serializer

PROPERTY = 'C06'
TECHNIQUE = 'CrossHair/z3 symbolic execution of the real key builder over symbolic aliases/leaves/orders; cvc5 string-theory query on the key template read from the AST; PYTHONHASHSEED subprocess replay'
FUNCTIONS = ['playback/tape_recorder.py::TapeRecorder._input_interception_key',
             'playback/tape_recorder.py::TapeRecorder._format_alias']
STUBS = ['jsonpickle.encode as used for key texts -> kenc: deterministic injective canonical text of a tree value given '
         'a traversal; dict items in insertion order (the recorder sorts kwargs itself; measured: jsonpickle sorts dict '
         'keys - validator), set elements in an order chosen by the solver (hash-seed oracle)']
ASSUMPTIONS = ['tree-shaped arguments (no aliasing between sub-objects), property proviso',
               'passing the same parameter positionally vs by keyword are different calls']
OUTSIDE = ['symbolic alias texts together with composite argument shapes in the equal-keys condition (alias fixed there; '
           'symbolic aliases are covered with scalar shapes and in the different-keys / resolver conditions)',
           'CPython hash randomisation itself (modelled as arbitrary set order; the finding is replayed in subprocesses '
           'with different PYTHONHASHSEED)', 'argument trees deeper than 2 or wider than 2', 'bytes / float leaves']

SHAPES = ['int', 'str', 'none-bool', 'list', 'tuple', 'dict', 'set', 'object', 'nested']


class Thing(object):
    def __init__(self, a):
        self.a = a


def build(shape, i, s, b, flip):
    """a value of the given shape from symbolic leaves; `flip` = the other insertion order of a dict"""
    if shape == 'int':
        return i
    if shape == 'str':
        return s
    if shape == 'none-bool':
        return None if b else True
    if shape == 'list':
        return [i, s]
    if shape == 'tuple':
        return (i, s)
    if shape == 'dict':
        d = {}
        for k, v in ([('y', s), ('x', i)] if flip else [('x', i), ('y', s)]):
            d[k] = v
        return d
    if shape == 'set':
        return set([s, s + 'z'])
    if shape == 'object':
        return Thing(i)
    if shape == 'nested':
        return [(i, {'k': [s]})]
    raise AssertionError(shape)


def _install(set_flip):
    import playback.tape_recorder as trmod
    if not ctx.REAL:
        serializer.SET_ORDER[0] = (lambda elems: list(reversed(elems))) if set_flip else None
        trmod.encode = serializer.kenc
        # jsonpickle sorts dict keys (validator); the canonical text must therefore not depend on insertion order
        serializer.DICT_SORT = True
    return trmod.TapeRecorder


CAPTURE = ['all', 'none', 'by-position-and-name']


def _capture(kind):
    from playback.tape_recorder import CapturedArg
    if kind == 'all':
        return None
    if kind == 'none':
        return []
    return [CapturedArg(1 if not ctx.S('static') else 0, 'x'), CapturedArg(None, 'p')]


def _call(TR, alias, static, cap, x, ex, p, q, kw_flip, x_by_kw):
    """key of the call f([self,] x, ex, p=p, q=q); x may be passed by keyword; kwargs in either insertion order"""
    kwargs = {}
    items = [('p', p), ('q', q)]
    if x_by_kw:
        items.append(('x', x))
    for k, v in (reversed(items) if kw_flip else items):
        kwargs[k] = v
    args = (() if static else ('SELF',)) + (() if x_by_kw else (x,)) + ((ex,) if not x_by_kw else ())
    return TR._input_interception_key(alias, cap, static, *args, **kwargs)


def same_call_same_key(alias: str, i: int, s: str, b: bool, ex1: int, ex2: int, p: int, q1: int, q2: int,
                       kw_flip: bool, dict_flip: bool, set_flip: bool, x_by_kw: bool) -> bool:
    """
    pre: len(alias) <= B('AL') and len(s) <= B('SL')
    pre: all(0 <= v < 1000 for v in (i, ex1, ex2, p, q1, q2))
    post: _
    """
    ctx.begin()
    shape = ctx.S('shape')
    capk = ctx.S('capture')
    static = bool(ctx.S('static'))
    if ctx.excluded('C06-set-iteration-order', shape == 'set' and capk != 'none'):
        return True
    if shape not in ('int', 'str', 'none-bool'):
        alias = 'svc.load'          # composite shapes: the alias text (identical in both calls) is fixed, see OUTSIDE
    TR = _install(False)
    cap = _capture(capk)
    # with a capture list, `ex` and `q` are excluded from the key and may differ; with capture-all they are part of it
    if capk == 'all':
        ex2, q2 = ex1, q1
    k1 = _call(TR, alias, static, cap, build(shape, i, s, b, False), ex1, p, q1, False, x_by_kw)
    _install(set_flip)
    k2 = _call(TR, alias, static, cap, build(shape, i, s, b, dict_flip), ex2, p, q2, kw_flip, x_by_kw)
    if kw_flip or dict_flip or set_flip:
        ctx.mark('reordered')
    return ctx.done(k1 == k2, 'reordered')


def different_calls_different_keys(alias1: str, alias2: str, i1: int, i2: int, s1: str, s2: str, p1: int, p2: int,
                                   which: int) -> bool:
    """
    pre: len(alias1) <= B('AL') and len(alias2) <= B('AL') and len(s1) <= B('SL') and len(s2) <= B('SL')
    pre: 0 <= which <= 4 and 0 <= i1 < B('IMAX') and 0 <= i2 < B('IMAX') and 0 <= p1 < B('IMAX') and 0 <= p2 < B('IMAX')
    pre: all(ch in 'ab{' for ch in alias1 + alias2) and all(ch in 'ab"' for ch in s1 + s2)
    post: _
    """
    # exactly one component differs between the two calls: 0 alias, 1 int leaf, 2 str leaf, 3 captured keyword value
    ctx.begin()
    shape = ctx.S('shape')
    capk = ctx.S('capture')
    static = bool(ctx.S('static'))
    which = ctx.S('which') if ctx.S('which') is not None else ctx.pick(which, (0, 1, 2, 3, 4))
    TR = _install(False)
    cap = _capture(capk)
    # the component that differs is symbolic; of the others the int leaves stay symbolic (one code point each), the
    # text components are fixed (two long symbolic texts on both sides make the solver's string theory the bottleneck)
    if which != 0:
        alias1 = alias2 = 'r.{x}'
    if which != 1:
        i2 = i1
    if which != 2:
        s1 = s2 = 'a"'
    if which != 3:
        p2 = p1
    differs = (alias1 != alias2) or (i1 != i2) or (s1 != s2) or (p1 != p2)
    v1, v2 = build(shape, i1, s1, True, False), build(shape, i2, s2, True, False)
    if which == 4:
        # same leaves, different container / class: list vs tuple, dict vs object with the same attribute
        twin = {'list': 'tuple', 'tuple': 'list', 'dict': None, 'object': None}.get(shape)
        if shape in ('list', 'tuple'):
            v2 = build(twin, i1, s1, True, False)
        elif shape == 'object':
            v2 = {'a': i1}
        else:
            return ctx.done(True)
        if capk == 'none':
            return ctx.done(True)
        k1 = _call(TR, alias1, static, cap, v1, 5, p1, 6, False, False)
        k2 = _call(TR, alias1, static, cap, v2, 5, p1, 6, False, False)
        ctx.mark('differing-calls')
        return ctx.done(k1 != k2, 'differing-calls')
    # is the differing component part of the captured value at all?
    uses_i = shape in ('int', 'list', 'tuple', 'dict', 'object', 'nested')
    uses_s = shape in ('str', 'list', 'tuple', 'dict', 'set', 'nested')
    relevant = (which == 0) or (capk != 'none' and ((which == 1 and uses_i) or (which == 2 and uses_s) or which == 3))
    if not differs or not relevant:
        return ctx.done(True)
    k1 = _call(TR, alias1, static, cap, v1, 5, p1, 6, False, False)
    k2 = _call(TR, alias2, static, cap, v2, 5, p2, 6, False, False)
    ctx.mark('differing-calls')
    return ctx.done(k1 != k2, 'differing-calls')


def resolver_alias(name1: str, name2: str, i: int) -> bool:
    """
    pre: len(name1) <= B('AL') and len(name2) <= B('AL') and 0 <= i < 1000
    post: _
    """
    # resolver-formatted aliases: different resolved parameters => different keys, equal ones => equal keys
    ctx.begin()
    TR = _install(False)
    a1 = TR._format_alias('r.{name}', lambda self, x: {'name': name1}, 'SELF', i)
    a2 = TR._format_alias('r.{name}', lambda self, x: {'name': name2}, 'SELF', i)
    k1 = TR._input_interception_key(a1, None, False, 'SELF', i)
    k2 = TR._input_interception_key(a2, None, False, 'SELF', i)
    ctx.mark('resolved')
    return ctx.done((k1 == k2) == (name1 == name2), 'resolved')


def values_only(i1: int, i2: int, alias: str) -> bool:
    """
    pre: 0 <= i1 < 1000 and 0 <= i2 < 1000 and len(alias) <= 2
    post: _
    """
    # the key is a function of the argument VALUES at call time, not of object identity, of Python's hash/== classes, or
    # of what was encoded earlier in the process: an object mutated between two calls gets a new key; 1 and True
    # (equal, same hash) get different keys whichever is encoded first
    ctx.begin()
    TR = _install(False)
    obj = Thing(i1)
    k1 = TR._input_interception_key(alias, None, True, obj, 5)
    obj.a = i2
    k2 = TR._input_interception_key(alias, None, True, obj, 5)
    ok = (k1 == k2) == (i1 == i2)
    ka = TR._input_interception_key(alias, None, True, 1, (1, 0))
    kb = TR._input_interception_key(alias, None, True, True, (True, False))
    kc = TR._input_interception_key(alias, None, True, 1, (1, 0))
    ok = ok and ka != kb and ka == kc
    if i1 != i2:
        ctx.mark('mutated-between-calls')
    return ctx.done(ok, 'mutated-between-calls')


def replay_same_call_same_key(args, shard, bounds):
    """replay on the real function with the real jsonpickle; set order = real hash randomisation in two subprocesses"""
    code = r'''
import sys, json
sys.path.insert(0, %r); sys.path.insert(0, %r)
from pbsym import ctx
ctx.REAL = True; ctx.SHARD = json.loads(%r)
import harness.C06 as h
a = json.loads(%r)
TR = h._install(False)
cap = h._capture(ctx.S('capture'))
static = bool(ctx.S('static'))
shape = ctx.S('shape')
ex2, q2 = (a['ex1'], a['q1']) if ctx.S('capture') == 'all' else (a['ex2'], a['q2'])
k1 = h._call(TR, a['alias'], static, cap, h.build(shape, a['i'], a['s'], a['b'], False), a['ex1'], a['p'], a['q1'], False, a['x_by_kw'])
k2 = h._call(TR, a['alias'], static, cap, h.build(shape, a['i'], a['s'], a['b'], a['dict_flip']), ex2, a['p'], q2, a['kw_flip'], a['x_by_kw'])
print('@@' + json.dumps([k1, k2]))
''' % (os.environ.get('PB_SRC', '/repo'), os.path.dirname(os.path.dirname(os.path.abspath(__file__))),
       json.dumps(shard), json.dumps(args))
    keys = []
    for seed in ('0', '1', '2', '3', '4', '5'):
        p = subprocess.run([sys.executable, '-c', code], stdout=subprocess.PIPE, stderr=subprocess.PIPE, timeout=120,
                           env=dict(os.environ, PYTHONHASHSEED=seed))
        out = p.stdout.decode()
        if '@@' not in out:
            return False, 'replay subprocess failed: ' + p.stderr.decode()[-300:]
        keys.append(json.loads(out[out.index('@@') + 2:]))
    within = [k for k in keys if k[0] != k[1]]
    across = len(set(k[0] for k in keys)) > 1
    if within:
        return True, 'same call, different keys inside one process: %s' % (within[0],)
    if across:
        return True, 'same call, different key per PYTHONHASHSEED: %s' % sorted(set(k[0] for k in keys))[:2]
    return False, 'keys agree in 6 processes with different hash seeds'


_CS = [(c, st) for c in CAPTURE for st in (False, True)]
_QSH = [{'shape': sh, 'capture': c, 'static': st} for sh in SHAPES for c, st in (('all', False), ('by-position-and-name', False), ('all', True))]
_TSH = [{'shape': sh, 'capture': c, 'static': st} for sh in SHAPES for c, st in _CS]
_W = {'shape': 'dict', 'capture': 'all', 'static': False}
CONDITIONS = [
    {'fn': 'same_call_same_key', 'nontrivial': 'reordered',
     'what': 'equal calls => equal keys under every kwargs / dict / set order and any excluded argument values; '
             'sharded by (argument shape, capture selection, static)',
     'tiers': {'quick': {'bounds': {'AL': 2, 'SL': 1}, 'timeout': 400, 'shards': _QSH, 'witness_shard': _W},
               'thorough': {'bounds': {'AL': 2, 'SL': 1}, 'timeout': 3000, 'shards': _TSH, 'witness_shard': _W}}},
    {'fn': 'different_calls_different_keys', 'nontrivial': 'differing-calls',
     'what': 'a different alias / captured leaf / captured keyword value => a different key',
     'tiers': {'quick': {'bounds': {'AL': 2, 'SL': 2, 'IMAX': 100}, 'timeout': 300,
                         'shards': [{'shape': sh, 'capture': c, 'static': st, 'which': w} for sh in ('int', 'str', 'list', 'dict', 'nested')
                                    for c, st in (('all', False), ('by-position-and-name', True)) for w in range(4)] +
                                   [{'shape': sh, 'capture': 'all', 'static': False, 'which': 4} for sh in ('list', 'object')],
                         'witness_shard': _W},
               'thorough': {'bounds': {'AL': 2, 'SL': 2, 'IMAX': 1000}, 'timeout': 3000,
                            'shards': [dict(x, which=w) for x in _QSH for w in range(5)], 'witness_shard': _W}}},
    {'fn': 'values_only', 'nontrivial': 'mutated-between-calls',
     'what': 'key = function of argument values at call time: mutated object, equal-hash values (1 vs True), call history',
     'tiers': {'quick': {'bounds': {}, 'timeout': 200, 'shards': [{}]},
               'thorough': {'bounds': {}, 'timeout': 600, 'shards': [{}]}}},
    {'fn': 'resolver_alias', 'nontrivial': 'resolved',
     'what': 'resolver-formatted aliases separate calls exactly by the resolved parameters',
     'tiers': {'quick': {'bounds': {'AL': 3}, 'timeout': 200, 'shards': [{}]},
               'thorough': {'bounds': {'AL': 5}, 'timeout': 600, 'shards': [{}]}}},
]


# ---------------------------------------------------------------------------------------------- E4: key framing

def _template(src_root):
    path = os.path.join(src_root, 'playback/tape_recorder.py')
    tree = ast.parse(open(path).read())
    fn = [n for n in ast.walk(tree) if isinstance(n, ast.FunctionDef) and n.name == '_input_interception_key'][0]
    for n in ast.walk(fn):
        if isinstance(n, ast.Return) and isinstance(n.value, ast.Call) and isinstance(n.value.func, ast.Attribute) \
                and n.value.func.attr == 'format' and isinstance(n.value.func.value, ast.Constant):
            names = [a.id if isinstance(a, ast.Name) else None for a in n.value.args]
            return n.value.func.value.value, names
    raise NotImplementedError('key template not found')


def extra_obligations(tier, src_root, excluded):
    import z3
    try:
        tmpl, names = _template(src_root)
    except Exception as ex:
        return [{'name': 'key framing', 'state': 'inconclusive', 'message': repr(ex)}]
    pieces = tmpl.split('{}')
    order = {'alias': None, 'args_key': None, 'kwargs_key': None}
    if len(pieces) != len(names) + 1 or sorted(n for n in names if n) != sorted(order):
        # a component is missing from the key text: two calls differing only there collide
        missing = [k for k in order if k not in names]
        return [{'name': 'key framing', 'state': 'violation', 'args': {'template': tmpl, 'format_args': names},
                 'detail': 'key template %r is formatted with %s: %s is not part of the key' % (tmpl, names, missing)}]

    def Rng(a, b):
        return z3.Range(a, b)
    digit = Rng('0', '9')
    integer = z3.Union(z3.Re('0'), z3.Concat(Rng('1', '9'), z3.Star(digit)))
    schar = z3.Union(Rng(' ', '!'), Rng('#', '['), Rng(']', '~'))
    jstr = z3.Concat(z3.Re('"'), z3.Star(schar), z3.Re('"'))
    atom = z3.Union(integer, jstr, z3.Re('null'), z3.Re('true'), z3.Re('false'))

    def arr(item):
        return z3.Union(z3.Re('[]'), z3.Concat(z3.Re('['), item, z3.Star(z3.Concat(z3.Re(', '), item)), z3.Re(']')))
    item2 = z3.Union(atom, arr(atom))
    arr2 = arr(item2)
    karr = arr(z3.Concat(z3.Re('['), jstr, z3.Re(', '), item2, z3.Re(']')))
    al = z3.Star(Rng(' ', '~'))
    la, lj = (24, 8) if tier != 'thorough' else (30, 12)
    v = dict((n, z3.String(n)) for n in ('a1', 'a2', 'A1', 'A2', 'K1', 'K2'))

    def key(a, A, K):
        comp = {'alias': a, 'args_key': A, 'kwargs_key': K}
        parts = [z3.StringVal(pieces[0])]
        for n, p in zip(names, pieces[1:]):
            parts.append(comp[n])
            parts.append(z3.StringVal(p))
        return z3.Concat(*parts)
    s = z3.Solver()
    for a in ('a1', 'a2'):
        s.add(z3.InRe(v[a], al), z3.Length(v[a]) <= la)
    for a in ('A1', 'A2'):
        s.add(z3.InRe(v[a], arr2), z3.Length(v[a]) <= lj)
    for a in ('K1', 'K2'):
        s.add(z3.InRe(v[a], karr), z3.Length(v[a]) <= lj)
    s.add(key(v['a1'], v['A1'], v['K1']) == key(v['a2'], v['A2'], v['K2']))
    s.add(z3.Or(v['a1'] != v['a2'], v['A1'] != v['A2'], v['K1'] != v['K2']))
    out = []
    name = ('no two different (alias <= %d chars, args JSON <= %d, kwargs JSON <= %d; arrays of depth <= 2) triples share a key '
            'text under template %r' % (la, lj, lj, tmpl))
    try:
        import cvc5
        slv = cvc5.Solver()
        slv.setOption('strings-exp', 'true')
        slv.setOption('strings-fmf', 'true')
        slv.setOption('produce-models', 'true')
        slv.setOption('tlimit-per', '600000')
        text = '\n'.join(ln for ln in s.to_smt2().splitlines() if not ln.startswith('(set-logic'))
        text = text.replace('(check-sat)', '(check-sat)\n(get-value (a1 A1 K1 a2 A2 K2))')
        ip = cvc5.InputParser(slv)
        ip.setStringInput(cvc5.InputLanguage.SMT_LIB_2_6, '(set-logic QF_SLIA)\n' + text, 'c06')
        sm = ip.getSymbolManager()
        t0 = time.time()
        res = None
        model = None
        while True:
            cmd = ip.nextCommand()
            if cmd.isNull():
                break
            try:
                o = cmd.invoke(slv, sm).strip()
            except Exception:
                o = ''
            if o in ('sat', 'unsat', 'unknown'):
                res = o
            elif o.startswith('(('):
                model = o
        dt = time.time() - t0
        if res == 'unsat':
            out.append({'name': name + ' (cvc5 strings)', 'state': 'confirmed', 'queries': 1, 'solver_s': round(dt, 2),
                        'sample': {'obligation': name, 'solver': 'cvc5', 'result': 'unsat'}})
        elif res == 'sat':
            out.append(_replay_collision(model, name, src_root))
        else:
            out.append({'name': name, 'state': 'inconclusive', 'message': 'cvc5: %s' % res})
    except Exception as ex:
        out.append({'name': name, 'state': 'inconclusive', 'message': repr(ex)[:300]})
    return out


def _replay_collision(model, name, src_root):
    """turn the solver's strings into real calls and compare the keys of the real function with the real jsonpickle"""
    import re
    vals = dict(re.findall(r'\((\w+) "((?:[^"]|"")*)"\)', model or ''))
    vals = dict((k, x.replace('""', '"')) for k, x in vals.items())
    try:
        sys.path.insert(0, src_root)
        from playback.tape_recorder import TapeRecorder
        keys = []
        for a, A, K in (('a1', 'A1', 'K1'), ('a2', 'A2', 'K2')):
            args = json.loads(vals[A])
            kwargs = dict((k, x) for k, x in json.loads(vals[K]))
            keys.append(TapeRecorder._input_interception_key(vals[a], None, True, *args, **kwargs))
        if keys[0] == keys[1]:
            return {'name': name, 'state': 'violation', 'args': vals,
                    'detail': 'two different calls share the key %r' % keys[0]}
        return {'name': name, 'state': 'inconclusive', 'message': 'solver collision %s did not reproduce: %s' % (vals, keys)}
    except Exception as ex:
        return {'name': name, 'state': 'inconclusive', 'message': 'collision replay failed: %r model=%s' % (ex, model)}


def validate_models():
    """kenc vs the real jsonpickle.encode: equality structure on a table of value pairs (same / different)"""
    import jsonpickle
    table = [1, 2, '1', 'a', 'ab', None, True, False, [1], [1, 2], (1, 2), [[1], 2], [1, [2]], {'x': 1}, {'x': 1, 'y': 2},
             {'y': 2, 'x': 1}, 'a"b', ['a", "b'], ['a', 'b'], {'a': [1]}, [{'a': 1}], '', [], {}, (1,), [1, None]]
    serializer.DICT_SORT = True
    vec = diffs = 0
    bad = []
    for x in table:
        for y in table:
            vec += 1
            real = jsonpickle.encode([x], unpicklable=True) == jsonpickle.encode([y], unpicklable=True)
            model = serializer.kenc([x]) == serializer.kenc([y])
            if real != model:
                diffs += 1
                bad.append((x, y))
    return [{'name': 'kenc equality structure vs real jsonpickle.encode', 'vectors': vec, 'differences': diffs,
             'error': str(bad[:4])}]
