"""C05 - A recording is persisted whole or not at all, and finalised exactly once.

Real code executed symbolically: start_recording's finally-block (sample -> save, else abort), discard_recording,
capture-failure paths (_intercept_input key failure, _record_output / _execute_func_and_record_interception handler
failures), _add_post_operation_metadata (incomplete flag), TapeCassette.save_recording/abort_recording, and play() for
the replay of what was saved.  Symbolic: the program, the fault step, the way and place the operation terminates
(return / ordinary exception / interrupt-style BaseException, at the end, between steps or inside an intercepted
body), the sampling rate and draw.  Oracle: the spy cassette saw exactly `create` + one finaliser for every recording
started (also for a following plain operation on the same recorder); `save` only if no capture fault fired, no
discard happened and the sampling policy kept it; every saved recording that is not flagged incomplete replays on
the same (fault-free) program without a missing-key error.
"""
from typing import List
from pbsym import ctx, rig as rigm, script as sc
from pbsym.ctx import B
from pbsym.models.quiet import num

PROPERTY = 'C05'
TECHNIQUE = 'CrossHair/z3 symbolic execution with a spy cassette over symbolic programs, fault steps, termination points and sampling rationals; saved recordings replayed on a fresh recorder'
FUNCTIONS = ['playback/tape_recorder.py::TapeRecorder.start_recording',
             'playback/tape_recorder.py::TapeRecorder.discard_recording',
             'playback/tape_recorder.py::TapeRecorder._reset_active_recording',
             'playback/tape_recorder.py::TapeRecorder._should_sample_active_recording',
             'playback/tape_recorder.py::TapeRecorder._add_post_operation_metadata',
             'playback/tape_recorder.py::TapeRecorder._intercept_input',
             'playback/tape_recorder.py::TapeRecorder._intercept_output',
             'playback/tape_recorder.py::TapeRecorder._record_output',
             'playback/tape_recorder.py::TapeRecorder._execute_func_and_record_interception',
             'playback/tape_recorder.py::TapeRecorder._enter_interception_context',
             'playback/tape_recorder.py::TapeRecorder.play',
             'playback/tape_cassette.py::TapeCassette.save_recording',
             'playback/tape_cassette.py::TapeCassette.abort_recording',
             'playback/tape_cassettes/file_based/file_based_tape_cassette.py::FileBasedTapeCassette._save_recording',
             'playback/tape_cassettes/in_memory/in_memory_tape_cassette.py::InMemoryTapeCassette._save_recording']
STUBS = ['jsonpickle -> token model (raises for values marked unserializable); time/uuid/random -> models; '
         'cassette = spy around the real in-memory / file (in-memory directory) / S3 (bucket model) cassette']
ASSUMPTIONS = ['a capture fault is one the harness really injected into a framework callback (journalled when raised)']
OUTSIDE = ['pairs of faults (thorough tier of C04 covers pairs for transparency)', 'programs longer than the bound',
           'cassette.abort_recording itself raising']


def _can_fire(fault, op):
    kind = sc.KINDS[op // 2]
    if fault == 'key_arg':
        return kind in ('A', 'B', 'S', 'R', 'C', 'D', 'H', 'M')
    if fault == 'key_resolver':
        return kind == 'R'
    if fault == 'in_handler':
        return kind == 'H'
    if fault == 'out_handler':
        return kind == 'U'
    return True


def _terminate(plan, how, where, in_body):
    """how: 0 return, 1 ordinary exception, 2 interrupt; where: -1 = at the end, k = at step k"""
    if how == 0:
        return
    if where < 0:
        plan.final = how
    else:
        plan.term_at = where
        plan.term_kind = how
        plan.term_in_body = in_body


def _events_by_recording(spy):
    ids = []
    for e, r in spy.log:
        if e == 'create':
            ids.append(r)
    return [(rid, [e for e, r in spy.log if r == rid and e != 'get']) for rid in ids]


def finalised_once(script: List[int], vals: List[int], fault_at: int, how: int, where: int, in_body: bool,
                   rate: int, draw: int, den: int) -> bool:
    """
    pre: len(script) <= _ltail() and all(s in B('OPS') for s in script)
    pre: len(vals) == 8 and 0 <= fault_at < B('L') and 0 <= how <= 2 and -1 <= where < B('L')
    pre: den > 0 and 0 <= draw < den and 0 <= rate <= den
    post: _
    """
    from playback.tape_recorder import TapeRecorder
    from playback.exceptions import RecordingKeyError
    ctx.begin()
    script = [ctx.pick(x, B('OPS')) for x in script]
    first = ctx.S('first', -1)
    if first is not None and first >= 0:
        script = [first] + script
    fault = ctx.S('fault')
    how = ctx.pick(how, (0, 1, 2))
    where = ctx.pick(where, range(-1, B('L')))
    fault_at = ctx.pick(fault_at, range(B('L')))
    if not ctx.S('sampling'):
        rate = den
    # prune parameter combinations that denote the same run as another one (no behaviour is dropped):
    if how == 0 and (where != -1 or in_body):
        return ctx.done(True)           # a returning operation has no termination point
    if where >= len(script) or (where == -1 and in_body):
        return ctx.done(True)           # termination point beyond the program = the run without it
    if fault and (fault_at >= len(script) or not _can_fire(fault, script[fault_at])):
        return ctx.done(True)           # the fault cannot be injected at that step = the fault-free run (shard None)
    if fault is None and fault_at != 0:
        return ctx.done(True)
    r = rigm.build('mem', spy=True, draws=[draw, draw], den=den)
    tr = r.tr
    spy = r.cassette
    plan = sc.Plan(script, vals)
    _terminate(plan, how, where, in_body)
    if fault:
        plan.faults = [(fault, fault_at)]
    run1 = sc.Run(tr)
    Svc = sc.make_service(tr, plan, run1, params={'sampling_rate': num(rate, den)})
    sc.execute(Svc, plan, run1)
    # a following plain operation on the same recorder (sampled at rate 1): it, too, must be whole and replayable
    probe = sc.Plan([sc.op_of('A', 1), sc.op_of('O', 1)], vals)
    runp = sc.Run(tr)
    sc.execute(sc.make_service(tr, probe, runp), probe, runp)
    per = _events_by_recording(spy)
    ok = len(per) == 2
    if not ok:
        return ctx.done(False)
    (rid1, ev1), (rid2, ev2) = per
    fired = len(run1.fired) > 0
    keep = rate >= den or draw <= rate
    want1 = ['create', 'save' if (keep and not fired) else 'abort']
    ok = ok and ev1 == want1 and ev2 == ['create', 'save']
    if fired:
        ctx.mark('fault-fired')
    if how == 2 and where >= 0 and in_body:
        ctx.mark('interrupt-in-body')
    # replay everything that was saved and is not flagged incomplete, on the unchanged (fault-free) program
    for rid, p in ((rid1, plan), (rid2, probe)):
        if ('save', rid) not in spy.log:
            continue
        rec = r.inner.get_recording(rid)
        if rec.get_metadata().get(TapeRecorder.INCOMPLETE_RECORDING):
            continue
        p2 = sc.Plan(p.script, vals)
        p2.final, p2.term_at, p2.term_kind, p2.term_in_body = p.final, p.term_at, p.term_kind, p.term_in_body
        p2.shift = 1000
        tr2 = TapeRecorder(r.cassette)        # a fresh recorder, as a replay elsewhere would use
        run2 = sc.Run(tr2)
        Svc2 = sc.make_service(tr2, p2, run2)

        def pf(recording, Svc2=Svc2, p2=p2, run2=run2):
            out = sc.execute(Svc2, p2, run2)
            if out[0] == 'exc':
                raise out[1]
        try:
            tr2.play(rid, pf)
            ctx.mark('replayed-saved')
        except RecordingKeyError:
            ok = False
    return ctx.done(ok, 'replayed-saved')


def failed_save_leaves_nothing(script: List[int], vals: List[int], fault_at: int) -> bool:
    """
    pre: len(script) <= _ltail() and all(s in B('OPS') for s in script)
    pre: len(vals) == 8 and 0 <= fault_at < B('L')
    post: _
    """
    # a captured value that only fails when the cassette serializes the recording: nothing (no partial recording) may
    # be left behind, and the lookup of that category keeps working
    from playback.exceptions import NoSuchRecording
    ctx.begin()
    script = [ctx.pick(x, B('OPS')) for x in script]
    first = ctx.S('first', -1)
    if first is not None and first >= 0:
        script = [first] + script
    fault_at = ctx.pick(fault_at, range(B('L')))
    r = rigm.build(ctx.S('cassette'), spy=True)
    tr = r.tr
    plan = sc.Plan(script, vals)
    plan.faults = [('unser_value', fault_at)]
    run1 = sc.Run(tr)
    sc.execute(sc.make_service(tr, plan, run1), plan, run1)
    per = _events_by_recording(r.cassette)
    ok = len(per) == 1 and per[0][1] == ['create', 'save']
    rid = per[0][0]
    last = {}
    for e in run1.sitelog:            # a later plain value recorded under the same key replaces the poisoned one
        if e[1] == 'ret':
            last[script[e[0]]] = e[2]
    poisoned = any(isinstance(v, sc.UVal) for v in last.values())
    if poisoned:
        ctx.mark('save-failed')
        listed = list(r.inner.iter_recording_ids('Svc'))
        ok = ok and listed == []
        try:
            got = r.inner.get_recording(rid)
            ok = ok and got is None       # in-memory cassette before its fix; a full recording would be wrong here
            ok = False if got is not None else ok
        except NoSuchRecording:
            pass
    else:
        ok = ok and list(r.inner.iter_recording_ids('Svc')) == [rid]
    return ctx.done(ok, 'save-failed')


def _ltail():
    first = ctx.S('first', -1)
    if first is None:
        return 0
    return B('L') - (1 if first >= 0 else 0)


_o = sc.op_of
_QOPS = [_o('A', 1), _o('H'), _o('O', 1), _o('U')]
_TOPS = [_o('A', 1), _o('H'), _o('R'), _o('O', 1), _o('U')]
_QF = [None, 'key_arg', 'in_handler', 'out_handler', 'discard_body']
_TF = [None, 'key_arg', 'key_resolver', 'in_handler', 'out_handler', 'discard_op', 'discard_body']


def _sh(faults, ops):
    out = [{'fault': None, 'first': f, 'sampling': True} for f in [None] + ops]
    out += [{'fault': k, 'first': f, 'sampling': False} for k in faults if k for f in ops]
    return out


_W = {'fault': None, 'first': _o('A', 1), 'sampling': True}
CONDITIONS = [
    {'fn': 'finalised_once', 'nontrivial': 'replayed-saved',
     'what': 'exactly one finaliser per started recording under every fault placement / termination point / sampling '
             'outcome; saved complete recordings replay; sharded by (fault kind, first opcode)',
     'tiers': {'quick': {'bounds': {'L': 2, 'OPS': _QOPS}, 'timeout': 500, 'shards': _sh(_QF, _QOPS), 'witness_shard': _W},
               'thorough': {'bounds': {'L': 3, 'OPS': _QOPS}, 'timeout': 6000, 'shards': _sh(_TF, _QOPS + [_o('R')]), 'witness_shard': _W}}},
    {'fn': 'failed_save_leaves_nothing', 'nontrivial': 'save-failed',
     'what': 'a value that fails only at save time: no partial recording is left in any cassette type',
     'tiers': {'quick': {'bounds': {'L': 2, 'OPS': [_o('A', 1), _o('O', 1)]}, 'timeout': 300,
                         'shards': [{'cassette': c, 'first': _o('A', 1)} for c in ('mem', 'file', 's3')],
                         'witness_shard': {'cassette': 'file', 'first': _o('A', 1)}},
               'thorough': {'bounds': {'L': 3, 'OPS': _QOPS}, 'timeout': 3000,
                            'shards': [{'cassette': c, 'first': f} for c in ('mem', 'file', 's3') for f in _QOPS],
                            'witness_shard': {'cassette': 'file', 'first': _o('A', 1)}}}},
]
