"""C11 - Recorded data cannot be altered through the values handed out.

Real code executed symbolically: MemoryRecording.get_data / __getitem__ (pickle_copy), the cassettes' get_recording
(fresh object graph per fetch), TapeRecorder._playback_recorded_interception (injection), play() +
_extract_recorded_output (recorded outputs of a Playback), copy-on-interception in
_execute_func_and_record_interception.  Symbolic: the leaves of the recorded value, its shape (list / dict / nested /
tuple holding a list / object - the shard), the mutation applied (append / item store / clear / attribute store), the
read path.  Oracle: a deep snapshot taken before the mutation equals what the second read / second fetch / second
replay observes; with copy-on-interception what is recorded equals the value at capture time.
"""
import copy
from pbsym import ctx, rig as rigm
from pbsym.ctx import B

PROPERTY = 'C11'
TECHNIQUE = 'CrossHair/z3 symbolic execution of read / fetch / replay paths with symbolic leaves and in-place mutations; snapshot oracle'
FUNCTIONS = ['playback/recordings/memory/memory_recording.py::MemoryRecording.get_data',
             'playback/recordings/memory/memory_recording.py::MemoryRecording.get_data_direct',
             'playback/recording.py::Recording.__getitem__',
             'playback/utils/pickle_copy.py::pickle_copy',
             'playback/tape_cassettes/in_memory/in_memory_tape_cassette.py::InMemoryTapeCassette.get_recording',
             'playback/tape_cassettes/file_based/file_based_tape_cassette.py::FileBasedTapeCassette.get_recording',
             'playback/tape_cassettes/s3/s3_tape_cassette.py::S3TapeCassette.get_recording',
             'playback/tape_cassettes/s3/s3_tape_cassette.py::S3TapeCassette.get_recording_metadata',
             'playback/tape_recorder.py::TapeRecorder._playback_recorded_interception',
             'playback/tape_recorder.py::TapeRecorder._execute_func_and_record_interception',
             'playback/tape_recorder.py::TapeRecorder._extract_recorded_output',
             'playback/tape_recorder.py::TapeRecorder.play']
STUBS = ['jsonpickle -> token model (deep copy contract: the model copies exactly where the real code calls '
         'encode/decode, so a read path that stops calling them hands out the stored object)', 'fs / S3 / uuid / time models']
ASSUMPTIONS = ['fidelity of the real copy = serializer contract']
OUTSIDE = ['mutation through a live (not yet saved) recording\'s own get_metadata() object', 'sets (unhashable symbolic leaves)']

SHAPES = ['list', 'dict', 'nested', 'tuple-with-list', 'object', 'dict-of-list']


class Obj(object):
    def __init__(self, a):
        self.a = a
        self.items = [a]

    def __eq__(self, o):
        return isinstance(o, Obj) and o.a == self.a and o.items == self.items

    def __hash__(self):
        return 1


def make_value(shape, a, b):
    if shape == 'list':
        return [a, b]
    if shape == 'dict':
        return {'x': a, 'y': b}
    if shape == 'nested':
        return {'x': [a, {'z': [b]}]}
    if shape == 'tuple-with-list':
        return (a, [b])
    if shape == 'object':
        return Obj(a)
    if shape == 'dict-of-list':
        return {'x': [a], 'y': [b]}
    raise AssertionError(shape)


def mutate(shape, v, m, c):
    """in-place mutation number m of a value of the given shape"""
    if shape == 'list':
        if m == 0:
            v.append(c)
        elif m == 1:
            v[0] = c
        else:
            del v[:]
    elif shape == 'dict':
        if m == 0:
            v['new'] = c
        elif m == 1:
            v['x'] = c
        else:
            v.clear()
    elif shape == 'nested':
        if m == 0:
            v['x'][1]['z'].append(c)
        elif m == 1:
            v['x'][0] = c
        else:
            v['x'][1].clear()
    elif shape == 'tuple-with-list':
        if m == 0:
            v[1].append(c)
        elif m == 1:
            v[1][0] = c
        else:
            del v[1][:]
    elif shape == 'object':
        if m == 0:
            v.items.append(c)
        elif m == 1:
            v.a = c
        else:
            v.extra = c
    elif shape == 'dict-of-list':
        if m == 0:
            v['y'].append(c)
        elif m == 1:
            v['x'][0] = c
        else:
            v.pop('y', None)


def _snap(v):
    return copy.deepcopy(v)


def _eq(x, y):
    if isinstance(x, Obj) or isinstance(y, Obj):
        return isinstance(x, Obj) and isinstance(y, Obj) and x.a == y.a and x.items == y.items \
            and getattr(x, 'extra', None) == getattr(y, 'extra', None)
    return x == y


def reads_are_copies(a: int, b: int, c: int, m: int, path: int) -> bool:
    """
    pre: 0 <= m <= 2 and 0 <= path <= 3 and c != a and c != b
    post: _
    """
    # save a recording holding the value as data and inside metadata, then: read -> mutate what was handed out -> read again
    ctx.begin()
    shape = ctx.S('shape')
    m = ctx.pick(m, (0, 1, 2))
    path = ctx.pick(path, (0, 1, 2, 3))
    r = rigm.build(ctx.S('cassette'))
    cas = r.cassette
    rec = cas.create_new_recording('Cat')
    rec.set_data('k', make_value(shape, a, b))
    rec.add_metadata({'meta': make_value(shape, a, b)})
    cas.save_recording(rec)
    want = make_value(shape, a, b)
    ok = True
    if path == 0:        # two reads of one fetched recording through get_data
        f = cas.get_recording(rec.id)
        mutate(shape, f.get_data('k'), m, c)
        ok = _eq(f.get_data('k'), want)
    elif path == 1:      # [] access, then a second fetch
        f = cas.get_recording(rec.id)
        mutate(shape, f['k'], m, c)
        ok = _eq(f['k'], want) and _eq(cas.get_recording(rec.id).get_data('k'), want)
    elif path == 2:      # metadata of two separate fetches
        f1 = cas.get_recording(rec.id)
        mutate(shape, f1.get_metadata()['meta'], m, c)
        f2 = cas.get_recording(rec.id)
        ok = _eq(f2.get_metadata()['meta'], want)
        ok = ok and _eq(cas.get_recording_metadata(rec.id)['meta'], want)
    else:                # direct (non-copying) access of one fetch must not leak into another fetch
        f1 = cas.get_recording(rec.id)
        mutate(shape, f1.get_data_direct('k'), m, c)
        mutate(shape, cas.get_recording_metadata(rec.id)['meta'], m, c)
        f2 = cas.get_recording(rec.id)
        ok = _eq(f2.get_data('k'), want) and _eq(f2.get_metadata()['meta'], want)
    ctx.mark('mutated')
    return ctx.done(ok, 'mutated')


def replay_is_repeatable(a: int, b: int, c: int, m: int, copy_on: bool, mutate_after_capture: bool, handler: bool) -> bool:
    """
    pre: 0 <= m <= 2 and c != a and c != b
    post: _
    """
    # an intercepted input returns a mutable value; replayed code mutates what was injected; a second replay and the
    # recorded outputs must be unaffected.  With copy-on-interception, mutating the value after capture (while still
    # recording) must not change what is recorded.
    ctx.begin()
    shape = ctx.S('shape')
    m = ctx.pick(m, (0, 1, 2))
    r = rigm.build(ctx.S('cassette'), spy=True)
    tr = r.tr
    live = {'v': None}
    seen = []
    from playback.interception.input_interception import InputInterceptionDataHandler

    class Envelope(InputInterceptionDataHandler):
        """a data handler whose prepared form is a new outer object that still references the live result"""
        def prepare_input_for_recording(self, interception_key, result, args, kwargs):
            return {'table': 't', 'rows': result}

        def restore_input_from_recording(self, recorded_data, args, kwargs):
            return recorded_data['rows']
    hkw = {'data_handler': Envelope()} if handler else {}

    @tr.recording_params(copy_data_on_intercepion=copy_on)
    class Svc(object):
        @tr.operation()
        def execute(self, mutate_it):
            v = self.read()
            seen.append(_snap(v))
            if mutate_it:
                mutate(shape, v, m, c)
            self.write(v)
            return 0

        @tr.intercept_input('in', **hkw)
        def read(self):
            live['v'] = make_value(shape, a, b)
            return live['v']

        @tr.intercept_output('out')
        def write(self, v):
            return 1
    want = make_value(shape, a, b)
    if mutate_after_capture and not copy_on:
        return ctx.done(True)             # the property's proviso: not mutated after capture unless copy is on
    Svc().execute(mutate_after_capture)
    rid = rigm.last_saved_id(r)
    if rid is None:
        return ctx.done(False)
    ok = True
    for _ in range(2):
        pb = tr.play(rid, lambda recording: Svc().execute(True))
        ok = ok and _eq(seen[-1], want)
    if mutate_after_capture:
        ctx.mark('copy-on-interception')
    # recorded outputs handed out by a Playback are copies as well
    pb1 = tr.play(rid, lambda recording: Svc().execute(False))
    for o in pb1.recorded_outputs:
        if o.key.startswith('output: out'):
            mutate(shape, o.value['args'][0], m, c)
    pb2 = tr.play(rid, lambda recording: Svc().execute(False))
    sent = make_value(shape, a, b)
    if mutate_after_capture:
        mutate(shape, sent, m, c)
    for o in pb2.recorded_outputs:
        if o.key.startswith('output: out'):
            ok = ok and _eq(o.value['args'][0], sent)
    # ... and do not alias the data of the Playback's own original_recording
    for o in pb2.recorded_outputs:
        if o.key.startswith('output: out'):
            mutate(shape, o.value['args'][0], m, c)
            ok = ok and _eq(pb2.original_recording.get_data(o.key)['args'][0], sent)
    ctx.mark('replayed-twice')
    return ctx.done(ok, 'replayed-twice')


_CASS = ['mem', 'file', 's3']
_W = {'cassette': 'mem', 'shape': 'nested'}
CONDITIONS = [
    {'fn': 'reads_are_copies', 'nontrivial': 'mutated',
     'what': 'read -> mutate -> read again through every read path; sharded by (cassette, value shape)',
     'tiers': {'quick': {'bounds': {}, 'timeout': 400, 'shards': [{'cassette': c, 'shape': s} for c in _CASS for s in SHAPES],
                         'witness_shard': _W},
               'thorough': {'bounds': {}, 'timeout': 2000, 'shards': [{'cassette': c, 'shape': s} for c in _CASS for s in SHAPES],
                            'witness_shard': _W}}},
    {'fn': 'replay_is_repeatable', 'nontrivial': 'replayed-twice',
     'what': 'replayed code mutating an injected input; second replay and recorded outputs unaffected; copy-on-interception',
     'tiers': {'quick': {'bounds': {}, 'timeout': 400, 'shards': [{'cassette': 'mem', 'shape': s} for s in SHAPES] +
                         [{'cassette': c, 'shape': 'tuple-with-list'} for c in ('file', 's3')], 'witness_shard': _W},
               'thorough': {'bounds': {}, 'timeout': 2000, 'shards': [{'cassette': c, 'shape': s} for c in _CASS for s in SHAPES],
                            'witness_shard': _W}}},
]
