"""C12 - Asynchronous recording stores exactly what synchronous recording would.

Real code: async_record_only_tape_cassette.py, recording.py, tape_cassette.py and memory_recording.py are loaded from
the current source through the cooperative rewrite (pbsym/coop.py): every function gets a generator twin with a
scheduling point before every statement, at loop heads and between an attribute load and the call made on it; Lock /
Event / Thread are models whose blocking operations yield wake-up predicates.  Symbolic (solver variables of the
schedule oracle): the positions and targets of up to P preemptions, the choice at every forced switch, the firing
pattern of the flush-interval timer, the workload (producers x data writes) and the index of a failing wrapped
operation.  CrossHair exhausts the oracle's variable space - the data is concrete, the solver's role here is the
exhaustive, pruned exploration of the schedule space (the weakest use of the technique in this framework, and labelled
so).  Oracle after close(): the wrapped spy saw every requested operation exactly once, per recording in request
order; a failed one did not stop later ones; the stored content equals the synchronous twin's; the wrapped close came
after the last operation; the buffer lock was never held while a storage operation executed.
"""
import os
import sys
from typing import List
from pbsym import ctx, coop
from pbsym.ctx import B

PROPERTY = 'C12'
TECHNIQUE = 'solver-driven exhaustive enumeration of thread schedules (preemptions, forced switches, timer firings, failing operation) over a cooperative AST rewrite of the real async cassette, CrossHair/z3 forking on the oracle variables'
FUNCTIONS = ['playback/tape_cassettes/asynchronous/async_record_only_tape_cassette.py::AsyncRecordOnlyTapeCassette.start',
             'playback/tape_cassettes/asynchronous/async_record_only_tape_cassette.py::AsyncRecordOnlyTapeCassette.close',
             'playback/tape_cassettes/asynchronous/async_record_only_tape_cassette.py::AsyncRecordOnlyTapeCassette.create_new_recording',
             'playback/tape_cassettes/asynchronous/async_record_only_tape_cassette.py::AsyncRecordOnlyTapeCassette._add_async_operation',
             'playback/tape_cassettes/asynchronous/async_record_only_tape_cassette.py::AsyncRecordOnlyTapeCassette._save_recording',
             'playback/tape_cassettes/asynchronous/async_record_only_tape_cassette.py::AsyncRecordOnlyTapeCassette._recording_loop',
             'playback/tape_cassettes/asynchronous/async_record_only_tape_cassette.py::AsyncRecordOnlyTapeCassette._flush_recording',
             'playback/tape_cassettes/asynchronous/async_record_only_tape_cassette.py::AsyncRecording._set_data',
             'playback/tape_cassettes/asynchronous/async_record_only_tape_cassette.py::AsyncRecording._add_metadata',
             'playback/tape_cassette.py::TapeCassette.save_recording',
             'playback/recording.py::Recording.set_data']
STUBS = ['threading.Lock / Event / Thread -> cooperative models (blocking = wake-up predicate; Event.wait(t) returns when the '
         'flag is set OR when a solver-chosen timer fires; Thread.join waits for completion)',
         'pickle_copy in memory_recording -> identity (not on the asynchronous path)']
ASSUMPTIONS = ['scheduling granularity: statement / loop head / attribute-load-then-call (finer interleavings inside one '
               'expression are not explored); join(timeout) expiry is not modelled']
OUTSIDE = ['more than P preemptions (P = 1 quick, 2 thorough); close() concurrent with a running producer; join-timeout expiry']

SRC = os.environ.get('PB_SRC', '/repo')
_LOADED = {}


def load():
    if 'm' in _LOADED:
        return _LOADED['m']
    import playback          # package shell from PB_SRC
    mods = [('playback.recording', 'playback/recording.py', {}),
            ('playback.tape_cassette', 'playback/tape_cassette.py', {}),
            ('playback.recordings.memory.memory_recording', 'playback/recordings/memory/memory_recording.py',
             {'pickle_copy': lambda v: v}),
            ('playback.tape_cassettes.asynchronous.async_record_only_tape_cassette',
             'playback/tape_cassettes/asynchronous/async_record_only_tape_cassette.py',
             {'Event': coop.CoopEvent, 'Lock': coop.CoopLock, 'Thread': coop.CoopThread})]
    m = None
    for name, rel, repl in mods:
        m = coop.coop_import(name, os.path.join(SRC, rel), repl)
    _LOADED['m'] = m
    return m


load()   # at import: module code must not be exec'd under CrossHair's tracing


class Oracle(object):
    """schedule decisions, all fixed up front from solver variables"""
    def __init__(self, preempts, targets, forced, fires, nforced=None):
        self.nforced = nforced
        self.preempts = preempts
        self.targets = targets
        self.forced = forced
        self.fires = fires
        self.pi = 0
        self.fi = 0
        self.ti = 0

    def preempt_here(self, step):
        for j in range(len(self.preempts)):
            if self.preempts[j] == step:
                self.pi = j
                return True
        return False

    # the remaining decisions are resolved lazily - only when the run reaches them - so the solver forks exactly on the
    # decisions that exist in a schedule (ctx.pick turns the symbolic value into a concrete one, one fork per option).
    # The schedule itself runs with CrossHair's tracing switched off (the data is concrete; tracing the generator-heavy
    # scheduler costs 10x); tracing is resumed only here, where solver variables are read.
    def preempt_target(self, n):
        with _resumed():
            t = self.targets[self.pi] if self.pi < len(self.targets) else 0
            return ctx.pick(t % n, range(n))

    def forced_choice(self, n):
        if self.nforced is not None and self.fi >= self.nforced:
            self.fi += 1
            return 0                # beyond the bound on solver-chosen forced switches: first runnable task
        with _resumed():
            c = self.forced[self.fi] if self.fi < len(self.forced) else 0
            self.fi += 1
            return ctx.pick(c % n, range(n))

    def timer_fires(self):
        with _resumed():
            f = self.fires[self.ti] if self.ti < len(self.fires) else False
            self.ti += 1
            return True if f else False


class _Null(object):
    def __enter__(self):
        return self

    def __exit__(self, *a):
        return False


def _resumed():
    try:
        from crosshair.tracers import ResumedTracing, is_tracing
        if ctx.MODE in ('check', 'witness') and not is_tracing():
            return ResumedTracing()
    except Exception:
        pass
    return _Null()


def _untraced():
    try:
        from crosshair.tracers import NoTracing, is_tracing
        if is_tracing():
            return NoTracing()
    except Exception:
        pass
    return _Null()


def make_wrapped(fail_at):
    from playback.tape_cassette import TapeCassette
    from playback.recordings.memory.memory_recording import MemoryRecording

    class Wrapped(TapeCassette):
        """synchronous storage spy; storage operation number `fail_at` raises"""
        def __init__(self):
            self.log = []
            self.saved = {}
            self.n = 0
            self.ops = 0
            self.closed_at = None
            self.in_op = False
            self.lock_seen_held = False
            self.lock = None

        def create_new_recording(self, category):
            self.n += 1
            cas = self

            class R(MemoryRecording):
                def _set_data(self, k, v):
                    cas._op(('set', self.id, k, v))
                    MemoryRecording._set_data(self, k, v)

                def _add_metadata(self, m):
                    cas._op(('meta', self.id, tuple(sorted(m.items()))))
                    MemoryRecording._add_metadata(self, m)
            return R('%s/%d' % (category, self.n))

        def _op(self, what):
            self.ops += 1
            if self.lock is not None and self.lock.owner is not None:
                self.lock_seen_held = True        # a producer would be blocked behind the storage
            if self.ops == fail_at:
                self.log.append(('FAIL',) + what)
                raise IOError('storage')
            self.log.append(what)

        def _save_recording(self, recording):
            self._op(('save', recording.id))
            self.saved[recording.id] = (dict(recording.recording_data), dict(recording.recording_metadata))

        def get_recording(self, rid):
            raise KeyError(rid)

        def iter_recording_ids(self, *a, **k):
            return iter(())

        def extract_recording_category(self, rid):
            return rid.split('/')[0]

        def close(self):
            self.closed_at = self.ops
    return Wrapped()


def run(n_prod, writes, fail_at, oracle, max_steps=3000, abort_first=False):
    m = load()
    sched = coop.Scheduler(oracle)
    coop.set_scheduler(sched)
    wrapped = make_wrapped(fail_at)
    cas = m.AsyncRecordOnlyTapeCassette(wrapped, flush_interval=0.1, timeout_on_close=10)
    wrapped.lock = getattr(cas, '_lock', None)      # (an implementation without this lock is judged by the other clauses)
    requested = {}

    def workload(pid):
        rec = yield from coop._coop_call(cas.create_new_recording, 'C%d' % pid)
        req = requested.setdefault(rec.id, [])
        for i in range(writes):
            yield coop.POINT
            req.append(('set', 'k%d' % i, i))
            yield from coop._coop_call(rec.set_data, 'k%d' % i, i)
        req.append(('meta', (('m', pid),)))
        yield from coop._coop_call(rec.add_metadata, {'m': pid})
        if abort_first and pid == 0:
            # this recording is dropped by the sampling policy: aborting it must not affect the others
            yield from coop._coop_call(cas.abort_recording, rec)
            return
        req.append(('save',))
        yield from coop._coop_call(cas.save_recording, rec)

    def main():
        yield from coop._coop_call(cas.start)
        prods = []
        for p in range(n_prod):
            t = coop.CoopThread(target=None, name='prod%d' % p)
            t.task = sched.spawn(workload(p), t.name)
            prods.append(t)
        for t in prods:
            yield from coop._coop_call(t.join)
        yield from coop._coop_call(cas.close)
    sched.spawn(main(), 'main')
    status = sched.run(max_steps)
    return status, wrapped, sched, requested


def check(n_prod, writes, fail_at, oracle, abort_first=False):
    status, wrapped, sched, requested = run(n_prod, writes, fail_at, oracle, 3000, abort_first)
    if status != 'done':
        return False, 'scheduler: ' + status
    errs = [(t.name, repr(t.error)) for t in sched.tasks if t.error]
    if errs:
        return False, 'task died: %s' % errs
    per = {}
    for e in wrapped.log:
        e2 = e[1:] if e[0] == 'FAIL' else e
        per.setdefault(e2[1], []).append((e2[0],) + tuple(e2[2:]))
    if per != requested:
        return False, 'operations reaching the storage %s != requested %s' % (per, requested)
    if wrapped.closed_at is None or wrapped.closed_at != wrapped.ops:
        return False, 'wrapped close() did not come after the last operation'
    if wrapped.lock_seen_held:
        return False, 'buffer lock held while a storage operation executed'
    return True, 'ok (%d steps)' % sched.steps


def schedules(p1: int, p2: int, t1: int, t2: int, forced: List[int], fires: List[bool], fail_at: int) -> bool:
    """
    pre: 0 <= p1 < B('STEPS') and p1 <= p2 < B('STEPS') and 0 <= t1 < 3 and 0 <= t2 < 3
    pre: len(forced) == B('FORCED') and all(0 <= c < 3 for c in forced) and len(fires) == B('FIRES')
    pre: -1 <= fail_at <= B('FAILMAX') and fail_at != 0
    post: _
    """
    ctx.begin()
    npre = ctx.S('preemptions')
    bucket = ctx.S('bucket')
    steps = B('STEPS')
    if bucket is not None:
        lo, hi = bucket
        if not (lo <= p1 < hi):
            return True
    p1 = ctx.pick(p1, range(steps))
    if npre >= 2:
        p2 = ctx.pick(p2, range(steps))
        if p2 == p1:
            return ctx.done(True)
        pre, tg = [p1, p2], [t1, t2]
    else:
        pre, tg = [p1], [t1]
    fmax = ctx.S('failmax', B('FAILMAX'))
    if fail_at > fmax:
        return ctx.done(True)
    fail_at = ctx.pick(fail_at, [x for x in range(-1, fmax + 1) if x != 0])
    fires = list(fires)[:B('FIRES')]
    with _untraced():
        ok, why = check(ctx.S('producers'), ctx.S('writes'), fail_at, Oracle(pre, tg, forced, fires, ctx.S('nforced')), bool(ctx.S('abort_first')))
    ctx.mark('schedule')
    if fail_at > 0:
        ctx.mark('failing-operation')
    return ctx.done(ok, 'schedule')


def replay_schedules(args, shard, bounds):
    """replay the schedule concretely on the rewritten real code (no solver)"""
    from pbsym import ctx as c
    c.SHARD, c.BOUNDS = shard, bounds
    npre = shard['preemptions']
    pre = [args['p1']] + ([args['p2']] if npre >= 2 else [])
    tg = [args['t1']] + ([args['t2']] if npre >= 2 else [])
    ok, why = check(shard['producers'], shard['writes'], args['fail_at'], Oracle(pre, tg, list(args['forced']), list(args['fires']), shard.get('nforced')), bool(shard.get('abort_first')))
    return (not ok), why


def _buckets(steps, k):
    w = (steps + k - 1) // k
    return [[i * w, min(steps, (i + 1) * w)] for i in range(k)]


_QB = {'STEPS': 200, 'FORCED': 4, 'FIRES': 2, 'FAILMAX': 4}
_TB = {'STEPS': 220, 'FORCED': 5, 'FIRES': 2, 'FAILMAX': 5}
CONDITIONS = [
    {'fn': 'schedules', 'nontrivial': 'schedule',
     'what': 'every schedule with <= P preemptions (statement / attribute-load granularity), every forced-switch choice, '
             'timer pattern and failing-operation index for small workloads; sharded by (workload, first-preemption bucket)',
     'tiers': {'quick': {'bounds': _QB, 'timeout': 900,
                         'shards': [{'producers': 1, 'writes': 1, 'preemptions': 1, 'bucket': b} for b in _buckets(120, 4)] +
                                   [{'producers': 1, 'writes': 2, 'preemptions': 1, 'bucket': b} for b in _buckets(140, 4)] +
                                   [{'producers': 2, 'writes': 1, 'preemptions': 1, 'bucket': b, 'nforced': 2, 'failmax': 2} for b in _buckets(180, 12)] +
                                   [{'producers': 2, 'writes': 1, 'preemptions': 1, 'bucket': b, 'nforced': 1, 'failmax': -1, 'abort_first': True}
                                    for b in _buckets(180, 6)],
                         'witness_shard': {'producers': 1, 'writes': 1, 'preemptions': 1, 'bucket': [0, 200]}},
               'thorough': {'bounds': _TB, 'timeout': 20000,
                            'shards': [{'producers': 1, 'writes': 1, 'preemptions': 2, 'bucket': b, 'nforced': 0, 'failmax': -1, 'b.FIRES': 1}
                                       for b in _buckets(120, 24)] +
                                      [{'producers': 1, 'writes': 2, 'preemptions': 1, 'bucket': b, 'nforced': 2, 'failmax': 3} for b in _buckets(140, 14)] +
                                      [{'producers': 2, 'writes': 1, 'preemptions': 1, 'bucket': b, 'nforced': 2, 'failmax': 3} for b in _buckets(180, 18)] +
                                      [{'producers': 2, 'writes': 1, 'preemptions': 1, 'bucket': b, 'nforced': 1, 'failmax': -1, 'abort_first': True}
                                       for b in _buckets(180, 9)] +
                                      [{'producers': 3, 'writes': 1, 'preemptions': 1, 'bucket': b, 'nforced': 1, 'failmax': -1} for b in _buckets(220, 11)],
                            'witness_shard': {'producers': 1, 'writes': 1, 'preemptions': 1, 'bucket': [0, 200]}}}},
]
