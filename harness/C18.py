"""C18 - Recording metadata tells the truth about the run.

Real code executed symbolically: _operation (class / class-level operation, extractor closure), start_recording
(exception flag, duration from the clock), _add_post_operation_metadata (duration, timestamp, incomplete flag,
extractor failures swallowed), _execute_operation_func / _record_output (operation output = completeness witness),
find_matching_recording_ids' default skip-incomplete filter on the real in-memory cassette.  Symbolic: the program,
how and where it terminates (return / ordinary exception / interrupt; at the end, between steps, inside an intercepted
body), the extractor behaviour (absent / ok with a symbolic value / raises / junk), instance vs class-level operation,
the two clock instants (exact rationals), whether the caller itself is handling an exception while it calls the
operation, recording switched off while the operation is in flight.  Oracle: the documented meaning of each key.
"""
from typing import List
from pbsym import ctx, rig as rigm, script as sc
from pbsym.ctx import B
from pbsym.models.quiet import Clock, num

PROPERTY = 'C18'
TECHNIQUE = 'CrossHair/z3 symbolic execution of metadata production over symbolic programs, termination points, extractor kinds, clock rationals and caller contexts'
FUNCTIONS = ['playback/tape_recorder.py::TapeRecorder._operation',
             'playback/tape_recorder.py::TapeRecorder.start_recording',
             'playback/tape_recorder.py::TapeRecorder._add_post_operation_metadata',
             'playback/tape_recorder.py::TapeRecorder._execute_operation_func',
             'playback/tape_recorder.py::TapeRecorder._record_output',
             'playback/tape_recorder.py::TapeRecorder._extract_recorded_output',
             'playback/studio/recordings_lookup.py::find_matching_recording_ids',
             'playback/tape_cassettes/in_memory/in_memory_tape_cassette.py::InMemoryTapeCassette.iter_recording_ids',
             'playback/tape_cassette.py::TapeCassette.match_against_recorded_metadata']
STUBS = ['time.time -> model clock handing out two symbolic rational instants; jsonpickle -> token model; uuid -> ids; '
         'datetime.utcnow is the real one (only its presence is checked)']
ASSUMPTIONS = ['clock instants are non-decreasing (documented contract of wall time within one process run)']
OUTSIDE = ['extractors returning an iterable of pairs (dict.update accepts it: not "junk")', 'programs longer than the bound']


class CallerError(Exception):
    pass


def _ltail():
    first = ctx.S('first', -1)
    if first is None:
        return 0
    return B('L') - (1 if first >= 0 else 0)


def metadata_truth(script: List[int], vals: List[int], how: int, where: int, in_body: bool, extractor: int,
                   class_level: bool, t0: int, t1: int, den: int, caller: int, disable_at: int) -> bool:
    """
    pre: len(script) <= _ltail() and all(s in B('OPS') for s in script)
    pre: len(vals) == 8 and 0 <= how <= 2 and -1 <= where < B('L') and extractor in B('EXTRACTORS')
    pre: den > 0 and t0 <= t1 and caller in B('CALLERS') and disable_at in B('DISABLE')
    post: _
    """
    return _metadata_truth(script, vals, how, where, in_body, extractor, class_level, t0, t1, den, caller, disable_at)


def caller_context_and_switch_off(script: List[int], vals: List[int], how: int, where: int, in_body: bool,
                                  class_level: bool, caller: int, disable_at: int) -> bool:
    """
    pre: len(script) <= _ltail() and all(s in B('OPS') for s in script)
    pre: len(vals) == 8 and 0 <= how <= 2 and -1 <= where < B('L')
    pre: caller in B('CALLERS') and disable_at in B('DISABLE') and class_level in B('CLS')
    post: _
    """
    # the operation is called while its caller is handling an exception; recording is switched off mid-operation
    return _metadata_truth(script, vals, how, where, in_body, 0, class_level, 0, 1, 1, caller, disable_at)


def _metadata_truth(script, vals, how, where, in_body, extractor, class_level, t0, t1, den, caller, disable_at):
    import playback.tape_recorder as trmod
    from playback.tape_recorder import TapeRecorder
    from playback.studio.recordings_lookup import find_matching_recording_ids, RecordingLookupProperties
    ctx.begin()
    script = [ctx.pick(x, B('OPS')) for x in script]
    first = ctx.S('first', -1)
    if first is not None and first >= 0:
        script = [first] + script
    how = ctx.S('how', None) if ctx.S('how', None) is not None else ctx.pick(how, (0, 1, 2))
    where = ctx.pick(where, range(-1, B('L')))
    extractor = ctx.pick(extractor, B('EXTRACTORS'))
    caller = ctx.pick(caller, B('CALLERS'))
    disable_at = ctx.pick(disable_at, B('DISABLE'))
    if how == 0 and (where != -1 or in_body):
        return ctx.done(True)
    if where >= len(script) or (where == -1 and in_body):
        return ctx.done(True)
    if disable_at >= len(script):
        return ctx.done(True)
    r = rigm.build('mem', spy=True)
    tr = r.tr
    if not ctx.REAL:
        # the recording timestamp is the UTC wall clock by the library's convention: a model whose local clock differs
        trmod.datetime = type('DT', (), {'utcnow': staticmethod(lambda: 'UTC-INSTANT'), 'now': staticmethod(lambda *a: 'LOCAL-INSTANT'),
                                         'today': staticmethod(lambda: 'LOCAL-INSTANT')})
        trmod.time = Clock([t0, t1], den)
    else:
        # replay on the real code: a host whose zone is far from UTC, real datetime
        import os as _os
        import time as _time
        _os.environ['TZ'] = 'JST-9'
        _time.tzset()
        ticks = [float(t0) / den, float(t1) / den]
        trmod.time = lambda: ticks.pop(0) if len(ticks) > 1 else ticks[0]
    # what ran on this recorder before must not colour the metadata of this run (shard: a replay / a discarded but
    # completed operation happened first)
    before = ctx.S('before')
    if before:
        warm = sc.Plan([sc.op_of('A', 1), sc.op_of('O', 1)], vals)
        if before == 'discarded':
            warm.faults = [('discard_op', 1)]
        wr = sc.Run(tr)
        sc.execute(sc.make_service(tr, warm, wr), warm, wr)
        if before == 'replay':
            rid0 = rigm.last_saved_id(r)
            w2 = sc.Plan([sc.op_of('A', 1), sc.op_of('O', 1)], vals)
            wr2 = sc.Run(tr)
            S2 = sc.make_service(tr, w2, wr2)
            tr.play(rid0, lambda recording: sc.execute(S2, w2, wr2))
        if not ctx.REAL:
            trmod.time = Clock([t0, t1], den)
    plan = sc.Plan(script, vals)
    if how:
        if where < 0:
            plan.final = how
        else:
            plan.term_at, plan.term_kind, plan.term_in_body = where, how, in_body
    plan.extractor = extractor
    plan.extractor_val = vals[0]
    plan.class_level = class_level
    if disable_at >= 0:
        plan.faults = [('disable_op', disable_at)]
    run1 = sc.Run(tr)
    Svc = sc.make_service(tr, plan, run1)
    # the caller may itself be in the middle of handling an exception (fallback / retry / cleanup code paths)
    if caller == 0:
        out = sc.execute(Svc, plan, run1)
    elif caller == 1:
        try:
            raise CallerError()
        except CallerError:
            out = sc.execute(Svc, plan, run1)
    else:
        try:
            raise sc.Interrupt()
        except sc.Interrupt:
            out = sc.execute(Svc, plan, run1)
    tr.enable_recording()
    rid = rigm.last_saved_id(r)
    if rid is None or (before == 'replay' and rid == rid0):
        return ctx.done(False)
    meta = r.inner.get_recording(rid).get_metadata()
    ok = meta.get(TapeRecorder.OPERATION_CLASS) is Svc if not ctx.REAL else TapeRecorder.OPERATION_CLASS in meta
    d = meta.get(TapeRecorder.DURATION)
    if not ctx.REAL:
        ok = ok and d is not None and d == num(t1 - t0, den) and d >= 0
    else:
        ok = ok and d is not None and abs(d - (float(t1) / den - float(t0) / den)) < 1e-9 and d >= 0
    ok = ok and isinstance(meta.get(TapeRecorder.RECORDED_AT), str)
    if not ctx.REAL:
        ok = ok and meta.get(TapeRecorder.RECORDED_AT) == 'UTC-INSTANT'
    else:
        import datetime as _dt
        stamp = _dt.datetime.strptime(meta.get(TapeRecorder.RECORDED_AT)[:19], '%Y-%m-%d %H:%M:%S')
        ok = ok and abs((stamp - _dt.datetime.utcnow()).total_seconds()) < 300
    interrupted = (how == 2)
    ok = ok and meta.get(TapeRecorder.INCOMPLETE_RECORDING) is interrupted
    if not interrupted:
        ok = ok and meta.get(TapeRecorder.EXCEPTION_IN_OPERATION) is (how == 1)
    if extractor == 1:
        ok = ok and meta.get('user_key') == vals[0] and meta.get('user_key2') == 'x' and run1.extractor_calls == 1
        ctx.mark('user-metadata')
    else:
        ok = ok and 'user_key' not in meta and 'user_key2' not in meta
    listed = list(find_matching_recording_ids(tr, 'Svc', RecordingLookupProperties(start_date=None)))
    ok = ok and ((rid in listed) is (not interrupted))
    if interrupted and where >= 0:
        ctx.mark('interrupted-midway')
    return ctx.done(ok, 'interrupted-midway')


_o = sc.op_of
_QOPS = [_o('A', 1), _o('O', 1)]
_TOPS = [_o('A', 1), _o('H'), _o('O', 1), _o('U')]
_W = {'first': _o('A', 1), 'how': 2}
_QA = {'L': 2, 'OPS': _QOPS, 'EXTRACTORS': [0, 1, 2, 3, 5], 'CALLERS': [0], 'DISABLE': [-1]}
_QB = {'L': 2, 'OPS': _QOPS, 'EXTRACTORS': [0], 'CALLERS': [0, 1, 2], 'DISABLE': [-1, 0, 1], 'CLS': [False]}
_TA = {'L': 3, 'OPS': _TOPS, 'EXTRACTORS': [0, 1, 2, 3, 4, 5, 6], 'CALLERS': [0], 'DISABLE': [-1]}
_TB = {'L': 2, 'OPS': _TOPS, 'EXTRACTORS': [0], 'CALLERS': [0, 1, 2], 'DISABLE': [-1, 0, 1], 'CLS': [False, True]}
CONDITIONS = [
    {'fn': 'metadata_truth', 'nontrivial': 'interrupted-midway',
     'what': 'every metadata key vs the documented meaning, for every termination mode/point, extractor behaviour and '
             'operation flavour; sharded by (first opcode, termination kind)',
     'tiers': {'quick': {'bounds': _QA, 'timeout': 500,
                         'shards': [{'first': f, 'how': h} for f in [None] + _QOPS for h in (0, 1, 2)], 'witness_shard': _W},
               'thorough': {'bounds': _TA, 'timeout': 6000,
                            'shards': [{'first': f, 'how': h} for f in [None] + _TOPS for h in (0, 1, 2)], 'witness_shard': _W}}},
    {'fn': 'caller_context_and_switch_off', 'nontrivial': 'interrupted-midway',
     'what': 'same oracle when the caller is handling an exception itself, and when recording is disabled mid-operation',
     'tiers': {'quick': {'bounds': _QB, 'timeout': 500,
                         'shards': [{'first': f, 'how': h} for f in _QOPS for h in (0, 1, 2)] +
                                   [{'first': _o('A', 1), 'how': 2, 'before': b} for b in ('replay', 'discarded')], 'witness_shard': _W},
               'thorough': {'bounds': _TB, 'timeout': 6000,
                            'shards': [{'first': f, 'how': h} for f in [None] + _TOPS for h in (0, 1, 2)] +
                                      [{'first': f, 'how': h, 'before': b} for f in _TOPS for h in (0, 1, 2) for b in ('replay', 'discarded')],
                            'witness_shard': _W}}},
]
