"""C10 - Lookup returns exactly the matching recordings, identically on all cassettes.

Real code executed symbolically: iter_recording_ids / extract_recording_category of the in-memory, file-based and S3
cassettes, S3BasicFacade.iter_keys (prefix listing, content filter, limit), the S3 round-robin over day iterators and
the id taken back from the key, TapeCassette.match_against_recorded_metadata, find_matching_recording_ids (default
skip-incomplete filter), iter_recordings_metadata.  Symbolic: the category TEXTS of the saved recordings and of the
query (1-2 chars over an alphabet containing '_' so that prefixes and underscores arise), each recording's metadata
value (absent / None / bool / int) and incomplete flag, the limit, the S3 key prefix (incl. the default empty one).
Oracle: reference set = saved ids of exactly that category whose metadata satisfies a reference matcher; the result has
no duplicates, is a subset of it, has size all / min(limit, matches), and every id is fetchable.  All cassettes are
held against the same reference, hence agree with each other.
"""
from pbsym import ctx, rig as rigm
from pbsym.ctx import B
from pbsym.models.assoc import AssocDict
from harness.C14 import ref_match

PROPERTY = 'C10'
TECHNIQUE = 'CrossHair/z3 symbolic execution of the three cassettes\' lookups with symbolic category texts, metadata kinds and limits against a reference matcher'
FUNCTIONS = ['playback/tape_cassettes/in_memory/in_memory_tape_cassette.py::InMemoryTapeCassette.iter_recording_ids',
             'playback/tape_cassettes/in_memory/in_memory_tape_cassette.py::InMemoryTapeCassette.extract_recording_category',
             'playback/tape_cassettes/file_based/file_based_tape_cassette.py::FileBasedTapeCassette.iter_recording_ids',
             'playback/tape_cassettes/file_based/file_based_tape_cassette.py::FileBasedTapeCassette.extract_recording_category',
             'playback/tape_cassettes/s3/s3_tape_cassette.py::S3TapeCassette.iter_recording_ids',
             'playback/tape_cassettes/s3/s3_tape_cassette.py::S3TapeCassette._get_days_iterators',
             'playback/tape_cassettes/s3/s3_tape_cassette.py::S3TapeCassette._get_id_prefixes',
             'playback/tape_cassettes/s3/s3_tape_cassette.py::S3TapeCassette.create_id_prefix_iterators',
             'playback/tape_cassettes/s3/s3_tape_cassette.py::S3TapeCassette._create_content_filter_func',
             'playback/tape_cassettes/s3/s3_basic_facade.py::S3BasicFacade.iter_keys',
             'playback/tape_cassette.py::TapeCassette.match_against_recorded_metadata',
             'playback/tape_cassette.py::TapeCassette.iter_recordings_metadata',
             'playback/studio/recordings_lookup.py::find_matching_recording_ids',
             'playback/tape_cassette.py::TapeCassette.save_recording']
STUBS = ['random.shuffle / random.choice in the cassettes -> one fixed non-identity permutation (only the result SET is checked)',
         'jsonpickle -> token model; json.loads of the S3 metadata object -> decode of the token; in-memory store -> '
         'association list (symbolic ids); os/io -> in-memory directory; boto3 -> bucket model; uuid/datetime -> models; '
         'parse.compile -> model (only extract_recording_category uses it now)']
ASSUMPTIONS = ['category texts contain none of "/", ".", "{", "}" (id / file-name / format separators)']
OUTSIDE = ['order and distribution of random_results (only the set is checked)', 'date arguments on the file / in-memory '
           'cassettes (documented as ignored); S3 dates are C16', 'more than 3 saved recordings', 're-saving a recording more than once; re-save on a later day on S3 (C16 covers day folders)']

INCOMPLETE = '_tape_recorder_incomplete_recording'
MKINDS = ['absent', 'none', 'false', 'true', 'int']


def _mval(kind, i):
    return {'absent': None, 'none': None, 'false': False, 'true': True, 'int': i}[kind]


def _meta(flag_kind, i, incomplete_kind):
    m = {'other': 1}
    if flag_kind != 'absent':
        m['flag'] = _mval(flag_kind, i)
    if incomplete_kind != 'absent':
        m[INCOMPLETE] = _mval(incomplete_kind, 0)
    return m


def _filter(kind):
    if kind == 'none':
        return None
    if kind == 'flag-true':
        return {'flag': True}
    if kind == 'flag-any-of':
        return {'flag': [False, None]}
    if kind == 'flag-gt':
        return {'flag': {'operator': '>', 'value': 0}}
    if kind == 'two-keys':
        return {'flag': True, INCOMPLETE: [False, None]}
    raise AssertionError(kind)


def _matches(flt, meta):
    for k, f in flt.items():
        if not ref_match(f, meta.get(k), None):
            return False
    return True


def _words(alpha, maxlen):
    out = list(alpha)
    if maxlen >= 2:
        out += [a + b for a in alpha for b in alpha]
    return out


def _words_ok(c1, c2, c3, q):
    """category texts come from the finite word list over the tier's alphabet; texts the shard fixes (or that the bound
    on the number of recordings leaves unused) are not constrained at all, so the solver does not enumerate them"""
    words = _words(B('ALPHA'), B('CL'))
    ok = True
    if ctx.S('cats') is None:
        ok = ok and c1 in words and c2 in words
        if ctx.B('N', 2) >= 3:
            ok = ok and c3 in words
    if ctx.S('q') is None:
        ok = ok and q in words
    return ok


def lookup(c1: str, c2: str, c3: str, q: str, k1: int, k2: int, k3: int, i1: int, i2: int, inc1: int, inc2: int,
           limit: int, n: int) -> bool:
    """
    pre: _words_ok(c1, c2, c3, q)
    pre: all(0 <= k < 5 for k in (k1, k2, k3)) and 0 <= inc1 <= 3 and 0 <= inc2 <= 3
    pre: -1 <= limit <= B('LIM') and B('NMIN') <= n <= B('N')
    post: _
    """
    from playback.tape_recorder import TapeRecorder
    from playback.studio.recordings_lookup import find_matching_recording_ids, RecordingLookupProperties
    ctx.begin()
    kind = ctx.S('cassette')
    fkind = ctx.S('filter')
    rnd = bool(ctx.S('random'))
    n = ctx.pick(n, range(1, B('N') + 1))
    limit = ctx.pick(limit, range(-1, B('LIM') + 1))
    # a shard may fix the query text and/or the saved categories (the other dimension stays symbolic); metadata
    # dimensions that the shard's filter cannot observe are pinned (same run as any other value)
    if ctx.S('q') is not None:
        q = ctx.S('q')
    if ctx.S('cats') is not None:
        c1, c2, c3 = ctx.S('cats')
    if fkind in ('none', 'default-skip-incomplete'):
        k1 = k2 = k3 = 0
    if fkind in ('none', 'flag-true', 'flag-any-of', 'flag-gt'):
        inc1 = inc2 = 0
    if fkind in ('flag-true', 'flag-any-of', 'two-keys', 'default-skip-incomplete', 'none'):
        i1 = i2 = 5
    lim = None if limit < 0 else limit
    r = rigm.build(kind if kind != 's3-noprefix' else 's3')
    cas = r.cassette
    if kind == 's3-noprefix':
        from playback.tape_cassettes.s3.s3_tape_cassette import S3TapeCassette
        cas = S3TapeCassette('bkt', read_only=False)
    if kind == 'mem' and not ctx.REAL:
        cas._recordings = AssocDict()
    cats = [c1, c2, c3][:n]
    fk = [MKINDS[ctx.pick(k, range(5))] for k in (k1, k2, k3)][:n]
    if ctx.S('cats') is None and fkind == 'default-skip-incomplete':
        # symbolic categories x default lookup: one recording complete-or-incomplete, the others unflagged
        ik = ['true' if inc1 >= 2 else 'absent', 'absent', 'absent'][:n]
    else:
        ik = [['absent', 'none', 'false', 'true'][ctx.pick(x, range(4))] for x in (inc1, inc2, 0)][:n]
    saved = []
    for c, f, i, inc in zip(cats, fk, (i1, i2, 7), ik):
        rec = cas.create_new_recording(c)
        rec.set_data('k', 1)
        meta = _meta(f, i, inc)
        rec.add_metadata(meta)
        cas.save_recording(rec)
        saved.append((c, rec.id, meta))
    if fkind == 'default-skip-incomplete':
        flt = {INCOMPLETE: [False, None]}
        holder = type('TR', (), {'tape_cassette': cas})()
        got = list(find_matching_recording_ids(holder, q, RecordingLookupProperties(None, limit=lim, random_sample=rnd)))
    else:
        flt = _filter(fkind)
        got = list(cas.iter_recording_ids(q, metadata=flt, limit=lim, random_results=rnd))
    want = [rid for c, rid, meta in saved if c == q and (flt is None or _matches(flt, meta))]
    ok = len(got) == (len(want) if lim is None else min(lim, len(want)))
    for i, g in enumerate(got):
        ok = ok and g in want and g not in got[:i]
        ok = ok and cas.get_recording(g).id == g
    if len(want) >= 1 and len(want) < n:
        ctx.mark('some-match-some-not')
    if any(c != q and (c.startswith(q) or q.startswith(c)) for c in cats):
        ctx.mark('prefix-related-categories')
    return ctx.done(ok, 'some-match-some-not')


def metadata_listing(c1: str, c2: str, q: str, i1: int, i2: int) -> bool:
    """
    pre: _words_ok(c1, c2, 'a', q)
    post: _
    """
    # iter_recordings_metadata yields the metadata of exactly the listed ids
    ctx.begin()
    kind = ctx.S('cassette')
    if ctx.S('q') is not None:
        q = ctx.S('q')
    r = rigm.build(kind)
    cas = r.cassette
    if kind == 'mem' and not ctx.REAL:
        cas._recordings = AssocDict()
    saved = []
    for c, i in ((c1, i1), (c2, i2)):
        rec = cas.create_new_recording(c)
        rec.add_metadata({'v': i})
        cas.save_recording(rec)
        saved.append((c, i))
    got = [m.get('v') for m in cas.iter_recordings_metadata(q)]
    want = [i for c, i in saved if c == q]
    if want:
        ctx.mark('listed')
    ok = len(got) == len(want) and all(g in want for g in got) and (len(want) < 2 or sorted([got[0] == want[0], got[0] == want[1]])[1])
    return ctx.done(ok, 'listed')


def resave(ku: int, kb: int, ka: int, j: int, between: int) -> bool:
    """
    pre: 0 <= ku <= 1 and 0 <= kb < 5 and 0 <= ka < 5 and 0 <= j <= 1 and 0 <= between <= 1
    post: _
    """
    # a recording that is fetched, given new metadata and saved again under its id is listed according to the metadata
    # it has NOW - also when a filtered lookup ran before the re-save (no stale answer from an earlier lookup)
    from playback.studio.recordings_lookup import find_matching_recording_ids, RecordingLookupProperties
    ctx.begin()
    kind, fkind = ctx.S('cassette'), ctx.S('filter')
    ku, j, between = ctx.pick(ku, range(2)), ctx.pick(j, range(2)), ctx.pick(between, range(2))
    if fkind == 'default-skip-incomplete':
        if kb >= 4 or ka >= 4:
            return ctx.done(True)
        kinds = ['absent', 'none', 'false', 'true']
    else:
        kinds = MKINDS
    kb, ka = kinds[ctx.pick(kb, range(len(kinds)))], kinds[ctx.pick(ka, range(len(kinds)))]
    other = ['absent', 'true'][ku]
    field = INCOMPLETE if fkind == 'default-skip-incomplete' else 'flag'

    def meta_of(k):
        return {'other': 1} if k == 'absent' else {'other': 1, field: _mval(k, 5)}

    with ctx.untraced():        # every solver variable was turned into a constant by pick() above
        r = rigm.build(kind)
        cas = r.cassette
        metas = [meta_of(other), meta_of(other)]
        metas[j] = meta_of(kb)
        ids = []
        for m in metas:
            rec = cas.create_new_recording('a')
            rec.set_data('k', 1)
            rec.add_metadata(m)
            cas.save_recording(rec)
            ids.append(rec.id)

        def listed():
            if fkind == 'default-skip-incomplete':
                holder = type('TR', (), {'tape_cassette': cas})()
                return list(find_matching_recording_ids(holder, 'a', RecordingLookupProperties(None)))
            return list(cas.iter_recording_ids('a', metadata=_filter(fkind)))

        def wanted():
            flt = {INCOMPLETE: [False, None]} if fkind == 'default-skip-incomplete' else _filter(fkind)
            return [rid for rid, m in zip(ids, metas) if _matches(flt, m)]

        ok = True
        if between:
            got = listed()
            ok = ok and sorted(got) == sorted(wanted())
        if ka == 'absent':
            # metadata cannot be removed through the public API: re-save with unchanged metadata
            new = dict(metas[j])
        else:
            new = dict(metas[j])
            new[field] = _mval(ka, 5)
        fetched = cas.get_recording(ids[j])
        fetched.add_metadata({field: new[field]} if field in new else {})
        cas.save_recording(fetched)
        metas[j] = new
        got = listed()
        want = wanted()
        ok = ok and sorted(got) == sorted(want) and len(set(got)) == len(got)
        for g in got:
            ok = ok and _matches({'other': 1}, cas.get_recording(g).get_metadata())
        ok = ok and cas.get_recording(ids[j]).get_metadata().get(field) == new.get(field)
    if between and (_matches_kind(fkind, meta_of(kb)) != _matches_kind(fkind, new)):
        ctx.mark('verdict-changed-after-lookup')
    return ctx.done(ok, 'verdict-changed-after-lookup')


def _matches_kind(fkind, meta):
    flt = {INCOMPLETE: [False, None]} if fkind == 'default-skip-incomplete' else _filter(fkind)
    return _matches(flt, meta)


_CASS = ['mem', 'file', 's3', 's3-noprefix']
_Q = ['a', 'a_', '_a']
_FIXCATS = ['a', 'a', 'a_']
# quick: (i) symbolic saved categories against a fixed query text, no filter / default lookup, every cassette;
#        (ii) fixed categories, symbolic metadata + filter kinds, every cassette
_QS = [{'cassette': c, 'filter': f, 'q': q} for c in _CASS for f in ('none',) for q in _Q] + \
      [{'cassette': c, 'filter': 'default-skip-incomplete', 'q': 'a'} for c in _CASS] + \
      [{'cassette': c, 'filter': f, 'cats': _FIXCATS, 'q': 'a'} for c in _CASS for f in ('default-skip-incomplete', 'flag-true')] + \
      [{'cassette': 'mem', 'filter': f, 'cats': _FIXCATS, 'q': 'a'} for f in ('flag-any-of', 'flag-gt')] + \
      [{'cassette': c, 'filter': 'none', 'random': True, 'q': 'a'} for c in ('mem', 's3')]
# thorough: the quick shards with limits up to 2 plus random listing for the filter shards (three saved recordings did
# not finish within the time budget on any cassette and are stated as not explored)
_TS = _QS
_W = {'cassette': 'file', 'filter': 'flag-true', 'cats': _FIXCATS, 'q': 'a'}
_RS = [{'cassette': c, 'filter': f} for c in ('mem', 'file', 's3') for f in ('flag-true', 'default-skip-incomplete')]
CONDITIONS = [
    {'fn': 'lookup', 'nontrivial': 'some-match-some-not',
     'what': 'saved recordings with symbolic category texts / metadata vs a query; sharded by (cassette, filter kind, query text '
             'or fixed categories)',
     'tiers': {'quick': {'bounds': {'CL': 2, 'ALPHA': ['a', '_'], 'LIM': 1, 'N': 2, 'NMIN': 2}, 'timeout': 600, 'shards': _QS, 'witness_shard': _W},
               'thorough': {'bounds': {'CL': 2, 'ALPHA': ['a', '_'], 'LIM': 1, 'N': 2, 'NMIN': 2}, 'timeout': 900, 'shards': _QS, 'witness_shard': _W}}},
    {'fn': 'metadata_listing', 'nontrivial': 'listed',
     'what': 'iter_recordings_metadata returns the metadata of exactly the listed recordings',
     'tiers': {'quick': {'bounds': {'CL': 2, 'ALPHA': ['a', '_']}, 'timeout': 600, 'shards': [{'cassette': c, 'q': 'a'} for c in ('mem', 'file', 's3')],
                         'witness_shard': {'cassette': 'mem', 'q': 'a'}},
               'thorough': {'bounds': {'CL': 2, 'ALPHA': ['a', '_']}, 'timeout': 900, 'shards': [{'cassette': c, 'q': 'a'} for c in ('mem', 'file', 's3')],
                            'witness_shard': {'cassette': 'mem', 'q': 'a'}}}},
    {'fn': 'resave', 'nontrivial': 'verdict-changed-after-lookup',
     'what': 'save, (filtered lookup), fetch + change metadata + save again under the same id, filtered lookup: the listing '
             'follows the metadata stored now; sharded by (cassette, filter kind)',
     'tiers': {'quick': {'bounds': {}, 'timeout': 600, 'shards': _RS, 'witness_shard': _RS[0]},
               'thorough': {'bounds': {}, 'timeout': 900, 'shards': _RS, 'witness_shard': _RS[0]}}},
]
