"""C13 - Comparison runs always finish and leave no worker behind.

Real code executed symbolically (same discrete-event world as C08): Equalizer.run_comparison (generator with its
finally-block), _play_and_compare_recording_within_worker (bounded wait loop, death detection),
_handle_compare_execution_timeout (kill, forget worker), _create_or_recycle_player_process_if_needed (recycle by age,
terminate/join/clear), _create_new_player_process.  Symbolic: the worker life-cycle behaviour per recording (answers
after a symbolic delay / dies working / dies idle / hangs) at every position incl. first, last and consecutive ones,
the parent's scheduling lags, the recycle rate, and how the run is consumed: fully, generator closed after k results,
or an exception in the consumer after k results.  Oracle in virtual time: every comparison is delivered within
timeout + one poll + the lags; the run ends (a join that would never return is reported by the model as a failure); no
worker ever serves more tasks than the recycle rate; when the run is over or abandoned every worker is dead, or idle
with the terminate event set (it then exits at its next poll - refinement condition of C08).
"""
from pbsym import ctx
from pbsym.ctx import B
from pbsym.models import mp as mpm
from harness.C08 import run_world, scenario, _d_ok, _l_ok, LIFE, TIMEOUT_S, BEH, QB, TB, TWIDE13

PROPERTY = 'C13'
TECHNIQUE = 'CrossHair/z3 symbolic execution of the real Equalizer in the discrete-event multiprocessing model: virtual-time bounds, recycle rate, worker leak and would-hang detection'
FUNCTIONS = ['playback/studio/equalizer.py::Equalizer.run_comparison',
             'playback/studio/equalizer.py::Equalizer._play_and_compare_recording_within_worker',
             'playback/studio/equalizer.py::Equalizer._handle_compare_execution_timeout',
             'playback/studio/equalizer.py::Equalizer._kill_compare_process',
             'playback/studio/equalizer.py::Equalizer._create_or_recycle_player_process_if_needed',
             'playback/studio/equalizer.py::Equalizer._create_new_player_process']
STUBS = ['multiprocessing / os.kill / time -> discrete-event world with a virtual clock (see C08)']
ASSUMPTIONS = ['a killed process stops at once (os.kill succeeds); virtual time stands for wall time']
OUTSIDE = ['wall-clock behaviour of the OS, os.kill failing', 'more than 3 recordings; timeouts other than 2 s']


def finishes_clean(l0: int, l1: int, l2: int, d0: int, d1: int, d2: int, lag0: int, lag1: int, rate: int,
                   consume: int, k: int, n: int, child_first: bool, kill_fails: bool) -> bool:
    """
    pre: _l_ok(l0, l1, l2) and all(_d_ok(d) for d in (d0, d1, d2))
    pre: 0 <= lag0 <= B('LAG') and 0 <= lag1 <= B('LAG') and rate in B('RATES') and consume in ctx.B('CONSUME', [0, 1, 2]) and 1 <= k <= 2
    pre: n in B('NS')
    post: _
    """
    ctx.begin()
    sc_ = scenario(0, 0, 0, l0, l1, l2, d0, d1, d2, lag0, lag1, rate, n)
    if sc_ is None:
        return ctx.done(True)
    ids, behs, life, delays, lags, rate = sc_
    lag0, lag1 = lags
    n = len(ids)
    consume = ctx.pick(consume, (0, 1, 2))
    k = ctx.pick(k, (1, 2))
    child_first = True if child_first else False
    kill_fails = True if kill_fails else False
    if consume == 0 and k != 1:
        return ctx.done(True)
    mode = [None, ('close', k), ('raise', k)][consume]
    if ctx.B('DELAYS', ()):
        with ctx.untraced():
            out, world, eq, spans, journal = run_world(ids, ['equal'] * n, life, delays, [lag0, lag1], rate, False, mode, child_first, kill_fails)
    else:
        out, world, eq, spans, journal = run_world(ids, ['equal'] * n, life, delays, [lag0, lag1], rate, False, mode, child_first, kill_fails)
    expected_n = n if mode is None else min(n, k)
    ok = len(out) == expected_n and not getattr(world, 'hung', None)
    # the run continues with a fresh worker: a prompt, healthy replay is compared normally whatever happened before it
    for i, c in enumerate(out):
        if life[i] == 'ok' and delays[i] + 4 * (lag0 + lag1) <= (TIMEOUT_S - 1) * mpm.TPS:
            ok = ok and c.comparator_status.equality_status.name == 'Equal'
    # every comparison is delivered within timeout + one poll + the parent's own lags (+ the answer's processing)
    # "within roughly that timeout": twice the timeout plus two polls plus the parent's own lags is still "roughly"
    bound = (2 * TIMEOUT_S + 2) * mpm.TPS + 6 * (lag0 + lag1) + 1
    for s in spans:
        ok = ok and s <= bound
    for p in world.procs:
        ok = ok and p.served <= rate
        if kill_fails and p.alive and p.busy is not None and p.busy[0] == 'hang':
            continue        # a hung worker that could not be killed is tolerated by the code (and by the property's quantifier)
        # alive is fine only if it has been told to terminate and is not hung: it exits after what it is doing
        ok = ok and ((not p.alive) or (p.terminate.is_set() and (p.busy is None or p.busy[0] != 'hang')))
    ok = ok and eq._terminate_process.is_set()
    if any(x in ('hang', 'die', 'die_idle') for x in life):
        ctx.mark('worker-trouble')
    if mode is not None and k < n:
        ctx.mark('abandoned')
    return ctx.done(ok, 'worker-trouble')


_LIFE2 = [(a, b) for a in LIFE for b in LIFE]
CONDITIONS = [
    {'fn': 'finishes_clean', 'nontrivial': 'worker-trouble',
     'what': 'hangs / deaths at every position, every recycle rate, full / closed-early / consumer-raises consumption; '
             'sharded by the life-cycle behaviour of the first two tasks',
     'tiers': {'quick': {'bounds': dict(QB, L2=[0, 2, 3], DELAYS=[0, 8, 13], RATES=[1, 2]), 'timeout': 600,
                         'shards': [{'life': list(p)} for p in _LIFE2], 'witness_shard': {'life': ['hang', 'ok']}},
               'thorough': {'bounds': TB, 'timeout': 8000,
                            'shards': [dict({'life': list(p)}, **TWIDE13) for p in _LIFE2],
                            'witness_shard': {'life': ['hang', 'ok']}}}},
]
