"""C16 - S3 time-window lookup is exact.

Real code executed symbolically: S3TapeCassette.create_new_recording (day folder), _save_recording,
_get_id_prefixes (day enumeration), create_id_prefix_iterators, iter_recording_ids (round-robin over day iterators, id
parsed back from the key), S3BasicFacade.iter_keys (last-modified predicate).  Symbolic: window start, optional end,
"now", and the instants at which one or two recordings are created+saved - integer SECONDS anywhere in a span of D
days (so every alignment of the window to day boundaries, down to one second, is covered - finer than the hour grid of
the property); process clock = UTC (property's proviso).  Oracle: returned ids = recordings with start <= t <= end.
A second encoding (E4) poses the day-enumeration arithmetic read from the source AST directly to z3 and cvc5.
"""
import ast
import os
import time
from pbsym import ctx
from pbsym.ctx import B
from pbsym.models import s3env

PROPERTY = 'C16'
TECHNIQUE = 'CrossHair/z3 symbolic execution of the S3 window lookup on an integer-seconds datetime model; z3 + cvc5 integer-arithmetic query generated from the day-enumeration AST'
FUNCTIONS = ['playback/tape_cassettes/s3/s3_tape_cassette.py::S3TapeCassette._get_id_prefixes',
             'playback/tape_cassettes/s3/s3_tape_cassette.py::S3TapeCassette.create_id_prefix_iterators',
             'playback/tape_cassettes/s3/s3_tape_cassette.py::S3TapeCassette._get_days_iterators',
             'playback/tape_cassettes/s3/s3_tape_cassette.py::S3TapeCassette.iter_recording_ids',
             'playback/tape_cassettes/s3/s3_tape_cassette.py::S3TapeCassette.create_new_recording',
             'playback/tape_cassettes/s3/s3_tape_cassette.py::S3TapeCassette._save_recording',
             'playback/tape_cassettes/s3/s3_basic_facade.py::S3BasicFacade.iter_keys']
STUBS = ['datetime/timedelta/pytz -> integer-seconds UTC timeline with a table of fixed-width day names (validated '
         'against real datetime)', 'boto3 -> bucket model stamping last_modified from the model clock',
         'jsonpickle -> token model, zlib -> blob, parse.compile -> str.find model, uuid -> ids']
ASSUMPTIONS = ['process clock in UTC (datetime.today() == utcnow()), recordings created and saved at the same instant '
               '(both are provisos of the property)', 'S3 last_modified = the instant of the put (bucket model)']
OUTSIDE = ['spans longer than D days', 'sub-second instants', 'daylight-saving / local time zones']

DAY = 86400


def _shard_ok(start, has_end, two):
    sd = ctx.S('start_day')
    return (sd is None or (sd * DAY <= start and start < (sd + 1) * DAY)) and has_end == ctx.S('has_end', has_end) \
        and two == ctx.S('two', two)


def window(start: int, end: int, now: int, r1: int, r2: int, has_end: bool, two: bool, rev_ids: bool) -> bool:
    """
    pre: 0 <= start <= end <= now < B('D') * 86400
    pre: 0 <= r1 <= now and 0 <= r2 <= now and r1 <= r2
    pre: _shard_ok(start, has_end, two)
    post: _
    """
    ctx.begin()
    from playback.tape_cassettes.s3.s3_tape_cassette import S3TapeCassette
    # uuid1 ids do not sort by creation time (their leading bits wrap every few minutes): the id order of the two
    # recordings is a solver variable, independent of their instants
    class _Ids(object):
        def __init__(self):
            self.n = 0

        def uuid1(self):
            self.n += 1
            k = (3 - self.n) if rev_ids else self.n
            return type('U', (), {'hex': 'u%d' % k})
    env = s3env.install(now=0, ids=_Ids())
    cas = S3TapeCassette('bkt', key_prefix='p', read_only=False)
    recs = []
    for t in ([r1, r2] if two else [r1]):
        s3env.set_now(env, t)
        rec = cas.create_new_recording('Cat')
        rec.set_data('k', 1)
        cas.save_recording(rec)
        recs.append((t, rec.id))
    s3env.set_now(env, now)
    got = list(cas.iter_recording_ids('Cat', start_date=s3env.instant(env, start),
                                      end_date=s3env.instant(env, end) if has_end else None))
    hi = end if has_end else now
    want = [rid for t, rid in recs if start <= t <= hi]
    if (hi // DAY) > (start // DAY) and (hi % DAY) < (start % DAY):
        ctx.mark('end-earlier-in-day-than-start')
    if two and rev_ids:
        ctx.mark('id-order-differs-from-time-order')
    ok = sorted(got) == sorted(want) and len(set(got)) == len(got)
    return ctx.done(ok, 'end-earlier-in-day-than-start')


CONDITIONS = [
    {'fn': 'window', 'nontrivial': 'end-earlier-in-day-than-start',
     'what': 'start/end/now/recording instants as symbolic integer seconds over D days',
     'tiers': {'quick': {'bounds': {'D': 4}, 'timeout': 400,
                         'shards': [{'start_day': d, 'has_end': h, 'two': t} for d in range(4) for h in (False, True) for t in (False, True)],
                         'witness_shard': {'start_day': 1, 'has_end': True, 'two': False}},
               'thorough': {'bounds': {'D': 7}, 'timeout': 3000,
                            'shards': [{'start_day': d, 'has_end': h, 'two': t} for d in range(7) for h in (False, True) for t in (False, True)],
                            'witness_shard': {'start_day': 1, 'has_end': True, 'two': False}}}},
]


# ------------------------------------------------------------------------------------------- E4: second encoding

def _day_count_expr(src_root):
    """read `range(<expr> + 1)` of _get_id_prefixes from the current source and classify the day-count expression"""
    path = os.path.join(src_root, 'playback/tape_cassettes/s3/s3_tape_cassette.py')
    tree = ast.parse(open(path).read())
    fn = [n for n in ast.walk(tree) if isinstance(n, ast.FunctionDef) and n.name == '_get_id_prefixes'][0]
    rng = [n for n in ast.walk(fn) if isinstance(n, ast.Call) and getattr(n.func, 'id', None) == 'range']
    if len(rng) != 1 or len(rng[0].args) != 1:
        return None, 'unexpected shape of the day enumeration (range call)'
    return rng[0].args[0], ast.unparse(rng[0].args[0])


def _to_z3(e, z3, s, t):
    """integer semantics of the datetime expression: instants are seconds s (start) / t (end)"""
    def instant(n):
        # returns ('dt', seconds) / ('td', seconds) / ('int', value)
        if isinstance(n, ast.Name):
            if n.id == 'start_date':
                return ('dt', s)
            if n.id == 'end_date':
                return ('dt', t)
        if isinstance(n, ast.Constant) and isinstance(n.value, int):
            return ('int', z3.IntVal(n.value))
        if isinstance(n, ast.Call) and isinstance(n.func, ast.Attribute) and n.func.attr == 'date' and not n.args:
            k, v = instant(n.func.value)
            assert k == 'dt'
            return ('dt', (v / DAY) * DAY)                  # z3 Int division is floor for positive divisor
        if isinstance(n, ast.Call) and isinstance(n.func, ast.Attribute) and n.func.attr == 'replace':
            k, v = instant(n.func.value)
            kw = dict((x.arg, x.value.value) for x in n.keywords)
            assert k == 'dt' and all(kw.get(f, 0) == 0 for f in ('hour', 'minute', 'second', 'microsecond')) \
                and set(kw) >= {'hour', 'minute', 'second'}
            return ('dt', (v / DAY) * DAY)
        if isinstance(n, ast.BinOp) and isinstance(n.op, (ast.Sub, ast.Add)):
            (ka, a), (kb, b) = instant(n.left), instant(n.right)
            sign = 1 if isinstance(n.op, ast.Add) else -1
            if ka == 'dt' and kb == 'dt' and sign == -1:
                return ('td', a - b)
            if ka == 'int' and kb == 'int':
                return ('int', a + sign * b)
            if ka == 'td' and kb == 'td':
                return ('td', a + sign * b)
            raise NotImplementedError('binop kinds %s %s' % (ka, kb))
        if isinstance(n, ast.Attribute) and n.attr == 'days':
            k, v = instant(n.value)
            assert k == 'td'
            return ('int', v / DAY)
        raise NotImplementedError(ast.dump(n)[:80])
    k, v = instant(e)
    assert k == 'int'
    return v


def extra_obligations(tier, src_root, excluded):
    """forall start <= rec <= end : day(rec) in {day(start) + i | 0 <= i < N(start, end)}  with N read from the source"""
    import z3
    out = []
    expr, text = _day_count_expr(src_root)
    if expr is None:
        return [{'name': 'day-enumeration (z3)', 'state': 'inconclusive', 'message': text}]
    t0 = time.time()
    try:
        s, t, rcd = z3.Ints('s t rcd')
        n = _to_z3(expr, z3, s, t)
        sol = z3.Solver()
        sol.set('timeout', 60000)
        sol.add(s >= 0, s <= rcd, rcd <= t, t < 10 ** 9)
        # violated iff the recording's day index is not among the enumerated days start_day .. start_day + n - 1
        sol.add(z3.Not(z3.And(rcd / DAY >= s / DAY, rcd / DAY <= s / DAY + n - 1)))
        res = sol.check()
        dt = time.time() - t0
        if str(res) == 'unsat':
            out.append({'name': 'day-enumeration covers every day of the window (z3, expr: %s)' % text, 'state': 'confirmed',
                        'queries': 1, 'solver_s': round(dt, 3),
                        'sample': {'obligation': 'forall 0<=s<=r<=t<1e9: day(r) in [day(s), day(s)+N-1]', 'N': text}})
        elif str(res) == 'sat':
            m = sol.model()
            args = {'start': m[s].as_long(), 'end': m[t].as_long(), 'rec': m[rcd].as_long()}
            # replay on the real code through the CrossHair condition's replay path is done by the window condition;
            # here report as inconclusive-for-this-encoding unless the concrete run also fails
            out.append({'name': 'day-enumeration (z3, expr: %s)' % text, 'state': 'violation-candidate', 'args': args,
                        'queries': 1, 'solver_s': round(dt, 3), 'detail': 'z3 model %s' % args})
        else:
            out.append({'name': 'day-enumeration (z3)', 'state': 'inconclusive', 'message': 'z3: %s' % res})
        # cvc5 on the same formula (SMT-LIB2 text from z3), diffed against z3
        try:
            import cvc5
            slv = cvc5.Solver()
            slv.setOption('tlimit-per', '60000')
            ip = cvc5.InputParser(slv)
            text = '\n'.join(ln for ln in sol.to_smt2().splitlines() if not ln.startswith('(set-logic'))
            ip.setStringInput(cvc5.InputLanguage.SMT_LIB_2_6, '(set-logic QF_NIA)\n' + text, 'c16')
            sm = ip.getSymbolManager()
            r2 = None
            while True:
                cmd = ip.nextCommand()
                if cmd.isNull():
                    break
                o = cmd.invoke(slv, sm)
                if o.strip() in ('sat', 'unsat', 'unknown'):
                    r2 = o.strip()
            agree = (r2 == str(res))
            out.append({'name': 'day-enumeration cross-check cvc5 vs z3', 'state': 'confirmed' if agree and r2 == 'unsat' else
                        ('inconclusive' if not agree or r2 == 'unknown' else 'violation-candidate'),
                        'queries': 1, 'detail': 'cvc5=%s z3=%s' % (r2, res), 'message': 'cvc5=%s z3=%s' % (r2, res)})
        except Exception as ex:     # cvc5 unavailable or parse trouble: reported, not fatal for the z3 verdict
            out.append({'name': 'day-enumeration cross-check cvc5', 'state': 'inconclusive', 'message': repr(ex)[:300]})
    except NotImplementedError as ex:
        out.append({'name': 'day-enumeration (z3)', 'state': 'inconclusive',
                    'message': 'translator does not know this construct: %s' % ex})
    # a violation candidate of the direct encoding is only reported through the CrossHair condition (which replays)
    for o in out:
        if o['state'] == 'violation-candidate':
            o['state'] = 'inconclusive'
            o['message'] = 'direct encoding found a candidate %s; see the window condition for the replayed verdict' % o.get('detail')
    return out


def validate_models():
    """integer datetime model vs real datetime on instants incl. day boundaries and negative deltas"""
    import datetime
    from pbsym.models import mdt
    base = datetime.datetime(2026, 1, 1)
    vec = diffs = 0
    pts = [0, 1, 86399, 86400, 86401, 2 * 86400 - 1, 3 * 86400 + 5, 5 * 86400 + 43200]
    for a in pts:
        for b in pts:
            vec += 1
            ra = base + datetime.timedelta(seconds=a)
            rb = base + datetime.timedelta(seconds=b)
            if (rb - ra).days != (mdt.MDT(b) - mdt.MDT(a)).days:
                diffs += 1
            if (rb.date() - ra.date()).days != (mdt.MDT(b).date() - mdt.MDT(a).date()).days:
                diffs += 1
            if ra.strftime('%Y%m%d') != mdt.MDT(a).strftime('%Y%m%d'):
                diffs += 1
            if (ra + datetime.timedelta(days=2)).strftime('%Y%m%d') != (mdt.MDT(a) + mdt.MTD(days=2)).strftime('%Y%m%d'):
                diffs += 1
    return [{'name': 'integer datetime model vs real datetime', 'vectors': vec, 'differences': diffs}]
