"""C08 - Every recording gets exactly one, correctly attributed verdict.

Real code executed symbolically: Equalizer.run_comparison, _play_and_compare_recording_within_worker (dispatch, bounded
wait, death detection), _handle_compare_execution_timeout, _kill_compare_process,
_create_or_recycle_player_process_if_needed, _create_new_player_process, _play_and_compare_recording,
ComparatorResult.failure_result - in a discrete-event world with a virtual clock; and, in the refinement condition,
the real worker loop _playback_process_target on the same model queues.  Symbolic: per recording the in-process
behaviour (equal / different / player raises / extractor raises / comparator raises / bare status) and the worker's
life-cycle behaviour (answers after a symbolic delay - possibly just after the parent gave up -, dies while working,
dies before taking the task, hangs), the parent's scheduling lags, the recycle rate, keep-results.  Oracle: one
Comparison per id, in input order, labelled with that id; an attached playback belongs to the labelled id; the verdict
is this recording's own verdict or - only if its own worker failed / was too slow - a framework failure; answers that
arrive comfortably within the timeout must be accepted; in-process and dedicated execution agree on everything that does
not involve the worker's life-cycle.
"""
from typing import List
from pbsym import ctx
from pbsym.ctx import B
from pbsym.models import mp as mpm

PROPERTY = 'C08'
TECHNIQUE = 'CrossHair/z3 symbolic execution of the real Equalizer in a discrete-event model of multiprocessing/time (symbolic delays and lags); refinement check of the real worker loop; real-multiprocessing validation plans'
FUNCTIONS = ['playback/studio/equalizer.py::Equalizer.run_comparison',
             'playback/studio/equalizer.py::Equalizer._play_and_compare_recording_within_worker',
             'playback/studio/equalizer.py::Equalizer._handle_compare_execution_timeout',
             'playback/studio/equalizer.py::Equalizer._kill_compare_process',
             'playback/studio/equalizer.py::Equalizer._create_or_recycle_player_process_if_needed',
             'playback/studio/equalizer.py::Equalizer._create_new_player_process',
             'playback/studio/equalizer.py::Equalizer._playback_process_target',
             'playback/studio/equalizer.py::Equalizer._play_and_compare_recording',
             'playback/studio/equalizer.py::ComparatorResult.failure_result']
STUBS = ['multiprocessing / os.kill / time in equalizer.py -> discrete-event world (virtual clock in ticks, 4 ticks/s); '
         'the worker process is a contract model of the real worker loop (justified by the refinement condition)']
ASSUMPTIONS = ['OS process, signal and pipe semantics are those of the model: a killed process stops at once; an answer is '
               'visible to the parent as soon as it is put; pickling of results across processes is not modelled']
OUTSIDE = ['real multiprocessing timing (three concrete plans are replayed against real multiprocessing in the thorough '
           'tier as model validation only)', 'more than 3 recordings per run; timeouts other than 2 s']

BEH = ['equal', 'different', 'player_raises', 'extractor_raises', 'comparator_raises', 'bare_status']
LIFE = ['ok', 'die', 'die_idle', 'hang']
TIMEOUT_S = 2


class Boom(Exception):
    pass


class FakeRecording(object):
    def __init__(self, rid):
        self.id = rid


class FakePlayback(object):
    def __init__(self, rid, beh):
        self.original_recording = FakeRecording(rid)
        self.recorded_outputs = [('rec', rid, beh)]
        self.playback_outputs = [('play', rid, beh)]


def make_equalizer(ids, behs, config, journal):
    from playback.studio.equalizer import Equalizer, EqualityStatus, ComparatorResult

    def beh_of(rid):
        return behs[ids.index(rid)]

    def player(rid):
        journal.append(('play', rid))
        if beh_of(rid) == 'player_raises':
            raise Boom('player ' + rid)
        return FakePlayback(rid, beh_of(rid))

    def extractor(outputs):
        kind, rid, beh = outputs[0]
        if beh == 'extractor_raises':
            raise Boom('extractor ' + rid)
        return (kind, rid)

    def comparator(recorded, played, **kw):
        rid = recorded[1]
        beh = beh_of(rid)
        if beh == 'comparator_raises':
            raise Boom('comparator ' + rid)
        if beh == 'bare_status':
            return EqualityStatus.Fixed
        if beh == 'different':
            return ComparatorResult(EqualityStatus.Different, 'diff ' + rid)
        return ComparatorResult(EqualityStatus.Equal, 'same ' + rid)
    return Equalizer(iter(ids), player, extractor, comparator, compare_execution_config=config)


def own_verdict(beh):
    """status name this recording's own comparison yields"""
    return {'equal': 'Equal', 'different': 'Different', 'bare_status': 'Fixed'}.get(beh, 'EqualizerFailure')


def _summary(c):
    return (c.recording_id, c.comparator_status.equality_status.name, c.comparator_status.message,
            c.playback.original_recording.id if c.playback is not None else None, c.expected, c.actual)


def run_world(ids, behs, life, delays, lags, rate, keep, consume=None, child_first=False, kill_fails=False):
    """drive the real Equalizer in the model world; returns (comparisons, world, eq, elapsed ticks per comparison)"""
    from playback.studio.equalizer import CompareExecutionConfig
    world = mpm.World([(life[i], delays[i]) for i in range(len(ids))], lags, child_first, kill_fails)
    holder = {}
    mpm.install(world, holder)
    cfg = CompareExecutionConfig(keep_results_in_comparison=keep, compare_in_dedicated_process=True,
                                 compare_process_recycle_rate=rate, compare_process_timeout=TIMEOUT_S)
    journal = []
    eq = make_equalizer(ids, behs, cfg, journal)
    holder['eq'] = eq
    out = []
    spans = []
    gen = eq.run_comparison()
    t0 = world.now
    error = None
    try:
        for c in gen:
            out.append(c)
            spans.append(world.now - t0)
            t0 = world.now
            if consume is not None and len(out) == consume[1]:
                if consume[0] == 'close':
                    gen.close()
                    break
                if consume[0] == 'raise':
                    raise Boom('consumer')
    except Boom as ex:
        error = ex
        gen.close()
    except mpm.WouldHang as ex:
        world.hung = str(ex)
    return out, world, eq, spans, journal


def _b_ok(b0, b1, b2):
    if ctx.S('beh') is not None:
        return b0 == 0 and b1 == 0 and b2 == 0
    return all(0 <= b < 6 for b in (b0, b1, b2))


def _l_ok(l0, l1, l2):
    if ctx.S('life') is not None:
        return l0 == 0 and l1 == 0 and l2 in B('L2')      # the shard fixes the first two life-cycle kinds
    return 0 <= l0 < 4 and 0 <= l1 < 4 and l2 in B('L2')


def _d_ok(d):
    ds = ctx.B('DELAYS', ())
    return (d in ds) if ds else (0 <= d <= B('DMAX'))


def scenario(b0, b1, b2, l0, l1, l2, d0, d1, d2, lag0, lag1, rate, n):
    """turn the symbolic parameters into a concrete-by-fork scenario; dimensions the tier pins are pinned here, and
    parameters that cannot influence the run (the delay of a worker that hangs or dies idle) are fixed"""
    n = ctx.pick(n, B('NS'))
    rate = ctx.pick(rate, B('RATES'))
    sl = ctx.S('life')
    l2k = LIFE[ctx.pick(l2, B('L2'))]
    if sl is not None:
        life = [sl[0], sl[1], l2k][:n]
    else:
        life = [LIFE[ctx.pick(x, range(4))] for x in (l0, l1)] + [l2k]
        life = life[:n]
    if ctx.S('beh') is not None:
        behs = ([ctx.S('beh')] * 3)[:n]
    else:
        behs = [BEH[ctx.pick(b, range(6))] for b in (b0, b1, b2)][:n]
    if ctx.B('D2', ()) != () and d2 not in ctx.B('D2', ()):
        return None
    delays = []
    for d, k in zip((d0, d1, d2), life):
        if k in ('hang', 'die_idle'):
            if d != 0:
                return None             # the delay of a worker that never answers is irrelevant: one representative
            delays.append(0)
        elif ctx.B('DELAYS', ()):
            delays.append(ctx.pick(d, B('DELAYS')))
        else:
            delays.append(d)
    lag0 = ctx.pick(lag0, range(B('LAG') + 1))
    lag1 = ctx.pick(lag1, range(B('LAG') + 1))
    ids = ['r0', 'r1', 'r2'][:n]
    return ids, behs, life, delays, [lag0, lag1], rate


def attribution(b0: int, b1: int, b2: int, l0: int, l1: int, l2: int, d0: int, d1: int, d2: int,
                lag0: int, lag1: int, rate: int, keep: bool, n: int, child_first: bool) -> bool:
    """
    pre: _b_ok(b0, b1, b2) and _l_ok(l0, l1, l2)
    pre: all(_d_ok(d) for d in (d0, d1, d2)) and 0 <= lag0 <= B('LAG') and 0 <= lag1 <= B('LAG')
    pre: rate in B('RATES') and n in B('NS') and keep in B('KEEPS')
    post: _
    """
    ctx.begin()
    sc_ = scenario(b0, b1, b2, l0, l1, l2, d0, d1, d2, lag0, lag1, rate, n)
    if sc_ is None:
        return ctx.done(True)
    ids, behs, life, delays, lags, rate = sc_
    lag0, lag1 = lags
    n = len(ids)
    keep = True if keep else False
    child_first = True if child_first else False
    if ctx.B('DELAYS', ()):
        with ctx.untraced():            # every solver variable was turned into a constant above: plain Python speed
            out, world, eq, spans, journal = run_world(ids, behs, life, delays, [lag0, lag1], rate, keep, None, child_first)
    else:
        out, world, eq, spans, journal = run_world(ids, behs, life, delays, [lag0, lag1], rate, keep, None, child_first)
    ok = [c.recording_id for c in out] == ids and not getattr(world, 'hung', None)
    limit_ticks = TIMEOUT_S * mpm.TPS
    slack = lag0 + lag1
    for i, c in enumerate(out):
        status = c.comparator_status.equality_status.name
        own = own_verdict(behs[i])
        if c.playback is not None:
            ok = ok and c.playback.original_recording.id == ids[i]
            if keep and status != 'EqualizerFailure':
                ok = ok and c.expected == ('rec', ids[i]) and c.actual == ('play', ids[i])
        # NB: which worker behaviour a recording meets depends on the order in which workers take tasks; with correct
        # attribution task i is taken i-th, so life[i]/delays[i] are recording i's own
        if life[i] == 'ok' and delays[i] + slack * 4 <= limit_ticks - mpm.TPS:
            ok = ok and status == own               # comfortably in time: its own verdict, nothing else
            if own != 'EqualizerFailure':
                ok = ok and c.comparator_status.message in (None, 'same ' + ids[i], 'diff ' + ids[i])
        else:
            ok = ok and status in (own, 'EqualizerFailure')
            if status == own and own != 'EqualizerFailure' and c.comparator_status.message is not None:
                ok = ok and c.comparator_status.message.endswith(ids[i])
    if any(k != 'ok' for k in life) or any(d > limit_ticks for d in delays):
        ctx.mark('worker-failure')
    return ctx.done(ok, 'worker-failure')


def modes_agree(b0: int, b1: int, b2: int, rate: int, keep: bool) -> bool:
    """
    pre: all(b in B('BEHS') for b in (b0, b1, b2)) and 1 <= rate <= 3
    post: _
    """
    # no worker life-cycle trouble: in-process and dedicated-process execution give the same verdict lists
    from playback.studio.equalizer import CompareExecutionConfig
    ctx.begin()
    rate = ctx.pick(rate, (1, 2, 3))
    behs = [BEH[ctx.pick(b, range(6))] for b in (b0, b1, b2)]
    ids = ['r0', 'r1', 'r2']
    out, world, eq, spans, journal = run_world(ids, behs, ['ok'] * 3, [1, 0, 2], [0], rate, keep)
    world2 = mpm.World([], [])
    holder = {}
    mpm.install(world2, holder)
    eq2 = make_equalizer(ids, behs, CompareExecutionConfig(keep_results_in_comparison=keep), [])
    holder['eq'] = eq2
    out2 = list(eq2.run_comparison())
    a = [_summary(c) for c in out]
    b = [_summary(c) for c in out2]
    if any(own_verdict(x) == 'EqualizerFailure' for x in behs):
        ctx.mark('failing-recording')
    ok = a == b and [x[0] for x in a] == ids and all(x[1] == own_verdict(bh) for x, bh in zip(a, behs))
    ok = ok and all(x[3] in (None, rid) for x, rid in zip(a, ids))
    return ctx.done(ok, 'failing-recording')


def worker_refines_contract(arrive: List[int], term_after: int, b0: int, b1: int) -> bool:
    """
    pre: len(arrive) == 2 and all(0 <= a <= 3 for a in arrive) and 0 <= term_after <= 8 and b0 in B('BEHS') and b1 in B('BEHS')
    post: _
    """
    # the REAL worker loop on model queues: for every arrival pattern of two tasks and every moment the terminate event
    # is raised, it answers each task it takes exactly once, in order, with (True, result) - or (False, text) - and
    # returns once the event is set; this is the contract the process model in the other conditions implements
    from playback.studio.equalizer import CompareExecutionConfig, PlayAndCompareResult
    ctx.begin()
    behs = [BEH[ctx.pick(b0, range(6))], BEH[ctx.pick(b1, range(6))]]
    ids = ['r0', 'r1']
    world = mpm.World([], [])
    holder = {}
    eqm = mpm.install(world, holder)
    eq = make_equalizer(ids, behs, CompareExecutionConfig(compare_in_dedicated_process=True), [])
    holder['eq'] = eq
    polls = [0]
    arrive = [ctx.pick(a, range(4)) for a in arrive]
    term_after = ctx.pick(term_after, range(9))

    class ArrivingQueue(mpm.Queue):
        def get(self, block=True, timeout=None):
            polls[0] += 1
            for i, a in enumerate(arrive):
                if a == polls[0] - 1 and ids[i] not in self.put_log:
                    self.put(ids[i])
            if polls[0] > term_after:
                eq._terminate_process.set()
            if self.items:
                return self.items.pop(0)
            raise mpm.Empty()
    eq._compare_tasks = ArrivingQueue(world)
    eq._playback_process_target()
    taken = [t for t in eq._compare_tasks.put_log if t not in eq._compare_tasks.items]
    answers = eq._compare_results.put_log
    ok = len(answers) == len(taken) and eq._terminate_process.is_set()
    for t, a in zip(taken, answers):
        ok = ok and a[0] is True and isinstance(a[1], PlayAndCompareResult)
        ok = ok and a[1].comparator_result.equality_status.name == own_verdict(behs[ids.index(t)])
        if a[1].playback is not None:
            ok = ok and a[1].playback.original_recording.id == t
    if len(taken) == 2:
        ctx.mark('two-tasks')
    return ctx.done(ok, 'two-tasks')


_LIFE2 = [(a, b) for a in LIFE for b in LIFE]
# quick: delays from the boundary-relevant tick values around the 2 s (8 tick) timeout and its 1 s polls; the third
# recording is a prompt, healthy one (it is the victim that reveals a misattribution); thorough: everything symbolic
QB = {'DMAX': 14, 'LAG': 1, 'NS': [3], 'RATES': [1, 3], 'KEEPS': [False], 'L2': [0], 'D2': [0], 'DELAYS': [0, 5, 8, 9, 12, 13]}
# thorough: (i) delays as symbolic ticks 0..16 (traced, genuinely symbolic), third recording prompt and healthy;
#           (ii) the enumerated tick set with 2-3 recordings, every third life-cycle kind, all recycle rates, keep-results
TB = {'DMAX': 16, 'LAG': 1, 'NS': [3], 'RATES': [1, 3], 'KEEPS': [False], 'L2': [0], 'D2': [0]}
TWIDE = {'b.DELAYS': [0, 5, 8, 9, 12, 13], 'b.NS': [3], 'b.RATES': [1, 2, 3], 'b.KEEPS': [False, True], 'b.L2': [0, 3],
         'b.D2': [0], 'b.LAG': 1}
TWIDE13 = {'b.DELAYS': [0, 5, 8, 13], 'b.NS': [3], 'b.RATES': [1, 2], 'b.L2': [0, 2, 3], 'b.D2': [0], 'b.LAG': 1}
CONDITIONS = [
    {'fn': 'attribution', 'nontrivial': 'worker-failure',
     'what': 'dedicated-process run over 2-3 recordings in the model world: labels, attached playbacks and verdicts; '
             'sharded by the life-cycle behaviour the first two tasks meet',
     'tiers': {'quick': {'bounds': QB, 'timeout': 600,
                         'shards': [{'life': list(p), 'beh': 'equal'} for p in _LIFE2],
                         'witness_shard': {'life': ['ok', 'die'], 'beh': 'equal'}},
               'thorough': {'bounds': TB, 'timeout': 8000,
                            'shards': [{'life': list(p), 'beh': 'equal'} for p in (('ok', 'ok'), ('ok', 'hang'), ('die', 'ok'), ('die_idle', 'ok'))] +
                                      [dict({'life': list(p), 'beh': 'equal'}, **TWIDE) for p in _LIFE2],
                            'witness_shard': {'life': ['ok', 'die'], 'beh': 'equal'}}}},
    {'fn': 'modes_agree', 'nontrivial': 'failing-recording',
     'what': 'all per-recording behaviours x recycle rates x keep-results: in-process == dedicated',
     'tiers': {'quick': {'bounds': {'BEHS': [0, 2, 3, 5]}, 'timeout': 600, 'shards': [{}]},
               'thorough': {'bounds': {'BEHS': [0, 1, 2, 3, 4, 5]}, 'timeout': 2400, 'shards': [{}]}}},
    {'fn': 'worker_refines_contract', 'nontrivial': 'two-tasks',
     'what': 'the real _playback_process_target on model queues behaves as the worker contract used by the process model',
     'tiers': {'quick': {'bounds': {'BEHS': [0, 2]}, 'timeout': 600, 'shards': [{}]},
               'thorough': {'bounds': {'BEHS': [0, 1, 2, 3, 4, 5]}, 'timeout': 2400, 'shards': [{}]}}},
]


REAL_MP_SCRIPT = r'''
import sys, json, time as _time
sys.path.insert(0, %r)
import logging; logging.disable(logging.CRITICAL)
import playback.studio.equalizer as eqm
from playback.studio.equalizer import Equalizer, CompareExecutionConfig, EqualityStatus

class Rec(object):
    def __init__(self, rid): self.id = rid
class PB(object):
    def __init__(self, rid):
        self.recorded_outputs = [rid]; self.playback_outputs = [rid]; self.original_recording = Rec(rid)
PLAN = %r
def player(rid):
    kind, delay = PLAN[rid]
    if kind == 'slow': _time.sleep(delay)
    if kind == 'hang': _time.sleep(60)
    if kind == 'die':
        import os; os._exit(3)
    return PB(rid)
calls = {'n': 0, 'armed': False}
def slow_time():
    # deschedule the parent at its 3rd clock read while it waits for the armed recording (the loop-exit test)
    if calls['armed']:
        calls['n'] += 1
        if calls['n'] == 3: _time.sleep(0.6)
    return _time.time()
eqm.time = slow_time
ORDER = %r
def ids():
    for rid in ORDER:
        calls['armed'] = (PLAN[rid][0] == 'slow'); calls['n'] = 0
        yield rid
eq = Equalizer(ids(), player, lambda outs: outs[0], lambda a, b: EqualityStatus.Equal,
               compare_execution_config=CompareExecutionConfig(compare_in_dedicated_process=True, compare_process_timeout=1))
out = [(c.recording_id, c.comparator_status.equality_status.name, c.playback.original_recording.id if c.playback else None)
       for c in eq.run_comparison()]
import multiprocessing
_time.sleep(0.3)
print('@@' + json.dumps({'out': out, 'children': len(multiprocessing.active_children())}))
'''


def validate_models():
    """thorough tier only: three concrete plans on the REAL Equalizer with REAL multiprocessing (late answer just after
    the timeout with a descheduled parent, a worker that dies, a worker that hangs): attribution must hold there too.
    Model validation, not the deciding step."""
    import subprocess
    import sys
    import json
    import os
    if os.environ.get('PBSYM_TIER') != 'thorough':
        return []
    src = os.environ.get('PB_SRC', '/repo')
    res = []
    for name, plan, order in (('late answer', {'r0': ('ok', 0), 'r1': ('slow', 1.3), 'r2': ('ok', 0)}, ['r0', 'r1', 'r2']),
                              ('worker dies', {'r0': ('die', 0), 'r1': ('ok', 0)}, ['r0', 'r1']),
                              ('worker hangs', {'r0': ('ok', 0), 'r1': ('hang', 0), 'r2': ('ok', 0)}, ['r0', 'r1', 'r2'])):
        p = subprocess.run([sys.executable, '-c', REAL_MP_SCRIPT % (src, plan, order)], stdout=subprocess.PIPE,
                           stderr=subprocess.PIPE, timeout=120)
        out = p.stdout.decode()
        if '@@' not in out:
            res.append({'name': 'real multiprocessing: ' + name, 'vectors': 1, 'differences': 1, 'error': p.stderr.decode()[-300:]})
            continue
        d = json.loads(out[out.index('@@') + 2:])
        bad = [o for o in d['out'] if o[2] is not None and o[2] != o[0]]
        okk = [o[0] for o in d['out']] == order and not bad and d['children'] == 0
        res.append({'name': 'real multiprocessing: ' + name, 'vectors': 1, 'differences': 0 if okk else 1, 'error': str(d)})
    return res
