"""C04 (thread dimension) - helper module used by harness/C04.py.

tape_recorder.py (with recording.py, memory_recording.py, tape_cassette.py, pickle_copy.py) is loaded from the current
source through the cooperative rewrite; an operation spawns two worker tasks, each calling one intercepted function;
the recording is discarded by a worker or by the operation body at a point chosen by the schedule oracle.  Every
schedule with <= P preemptions (statement / attribute-load granularity) is explored by CrossHair over the oracle's
variables.  Oracle: both workers get exactly what the undecorated bodies return, nothing raises into the service, each
body ran exactly once.
"""
import os
from typing import List
from pbsym import coop, ctx
from pbsym.ctx import B

SRC = os.environ.get('PB_SRC', '/repo')
_LOADED = {}


class CoopLocal(object):
    """threading.local model keyed by the running cooperative task"""
    def __init__(self):
        object.__setattr__(self, '_d', {})

    def _ns(self):
        return self._d.setdefault(id(coop.SCHED.current) if coop.SCHED else 0, {})

    def __getattr__(self, k):
        try:
            return self._ns()[k]
        except KeyError:
            raise AttributeError(k)

    def __setattr__(self, k, v):
        self._ns()[k] = v


class Threading(object):
    local = CoopLocal
    Lock = coop.CoopLock
    RLock = coop.CoopLock


def load():
    if 'ok' in _LOADED:
        return
    import playback
    import playback.exceptions
    import playback.utils.is_iterable
    for name, rel, repl in [('playback.recording', 'playback/recording.py', {}),
                            ('playback.utils.pickle_copy', 'playback/utils/pickle_copy.py', {}),
                            ('playback.recordings.memory.memory_recording', 'playback/recordings/memory/memory_recording.py', {}),
                            ('playback.tape_cassette', 'playback/tape_cassette.py', {}),
                            ('playback.tape_recorder', 'playback/tape_recorder.py', {'threading': Threading})]:
        coop.coop_import(name, os.path.join(SRC, rel), repl)
    _LOADED['ok'] = True


def scenario(oracle, discard_by, copy_on=False, body_raises=False, max_steps=4000):
    """discard_by: None | 'worker' (worker B discards before its own call) | 'body' (worker A's intercepted body discards)
    | 'operation' (the operation body discards after spawning the workers) | 'watchdog' (an independent thread, e.g. a
    timeout handler, discards at any moment - also while the recorder is finalising the recording)"""
    load()
    from playback.tape_recorder import TapeRecorder
    from playback.tape_cassette import TapeCassette
    from playback.recordings.memory.memory_recording import MemoryRecording

    class Spy(TapeCassette):
        def __init__(self):
            self.log = []
            self.n = 0

        def get_recording(self, rid):
            raise KeyError(rid)

        def create_new_recording(self, category):
            self.n += 1
            self.log.append('create')
            return MemoryRecording('%s/%d' % (category, self.n))

        def _save_recording(self, recording):
            self.log.append('save')

        def abort_recording(self, recording):
            self.log.append('abort')
            recording.close()

        def iter_recording_ids(self, *a, **k):
            return iter(())

        def extract_recording_category(self, rid):
            return rid.split('/')[0]

    sched = coop.Scheduler(oracle)
    coop.set_scheduler(sched)
    spy = Spy()
    tr = TapeRecorder(spy)
    tr.enable_recording()
    journal = []
    results = {}

    class Boom(Exception):
        pass

    @tr.recording_params(copy_data_on_intercepion=copy_on)
    class Op(object):
        @tr.intercept_input('in')
        def read(self, a):
            journal.append(('read', a))
            if discard_by == 'body':
                tr.discard_recording()
            if body_raises:
                raise Boom()
            return a * 10

        @tr.intercept_output('out')
        def write(self, v):
            journal.append(('write', v))
            return v + 1
    op = Op()

    def worker_a():
        try:
            results['a'] = ('ret', (yield from coop._coop_call(op.read, 1)))
        except Boom:
            results['a'] = ('boom',)

    def worker_b():
        if discard_by == 'worker':
            yield from coop._coop_call(tr.discard_recording)
        results['b'] = ('ret', (yield from coop._coop_call(op.write, 2)))

    def body(self):
        ta = sched.spawn(worker_a(), 'wa')
        tb = sched.spawn(worker_b(), 'wb')
        if discard_by == 'operation':
            yield coop.POINT
            yield from coop._coop_call(tr.discard_recording)
        while not (ta.done and tb.done):
            yield coop.Blocked(lambda: ta.done and tb.done)
        if ta.error:
            raise ta.error
        if tb.error:
            raise tb.error
        return 7

    def plain_body(self):
        raise AssertionError('the atomic version must not be used')
    coop._coop_attach(plain_body, body)
    Op.execute = tr.operation()(plain_body)
    out = {}

    def main():
        out['r'] = yield from coop._coop_call(Op().execute)

    def watchdog():
        yield coop.POINT
        yield from coop._coop_call(tr.discard_recording)
    sched.spawn(main(), 'main')
    if discard_by == 'watchdog':
        sched.spawn(watchdog(), 'watchdog')
    status = sched.run(max_steps)
    errs = [(t.name, repr(t.error)) for t in sched.tasks if t.error]
    want_a = ('boom',) if body_raises else ('ret', 10)
    finalisers = [e for e in spy.log if e in ('save', 'abort')]
    ok = (status == 'done' and not errs and out.get('r') == 7 and results.get('a') == want_a
          and results.get('b') == ('ret', 3) and sorted(journal) == [('read', 1), ('write', 2)]
          and spy.log[:1] == ['create'] and len(finalisers) == 1)
    why = 'status=%s errors=%s out=%s results=%s journal=%s cassette=%s steps=%d' % (
        status, errs, out, results, journal, spy.log, sched.steps)
    return ok, why, sched.steps


def threads(p1: int, p2: int, t1: int, t2: int, forced: List[int], copy_on: bool, body_raises: bool) -> bool:
    """
    pre: 0 <= p1 < B('STEPS') and p1 <= p2 < B('STEPS') and 0 <= t1 < 2 and 0 <= t2 < 2
    pre: len(forced) == B('FORCED') and all(0 <= c < 3 for c in forced)
    post: _
    """
    # worker threads inside the operation: every schedule with <= P preemptions of two workers and the operation body,
    # the recording being discarded by a worker / an intercepted body / the operation at a schedule-chosen moment
    ctx.begin()
    lo, hi = ctx.S('bucket', [0, B('STEPS')])
    if not (lo <= p1 < hi):
        return True
    p1 = ctx.pick(p1, range(lo, hi))
    pre, tg = [p1], [t1]
    if ctx.S('preemptions', 1) >= 2:
        p2 = ctx.pick(p2, range(B('STEPS')))
        if p2 == p1:
            return ctx.done(True)
        pre, tg = [p1, p2], [t1, t2]
    copy_on, body_raises = (True if copy_on else False), (True if body_raises else False)
    with ctx.untraced():
        ok, why, steps = scenario(Oracle(pre, tg, forced, []), ctx.S('discard_by'), copy_on, body_raises)
    if p1 < steps:
        ctx.mark('preempted')
    return ctx.done(ok, 'preempted')


def replay_threads(args, shard, bounds):
    """replay the schedule concretely on the rewritten real code (no solver involved)"""
    ctx.SHARD, ctx.BOUNDS = shard, bounds
    pre, tg = [args['p1']], [args['t1']]
    if shard.get('preemptions', 1) >= 2:
        pre, tg = [args['p1'], args['p2']], [args['t1'], args['t2']]
    ok, why, steps = scenario(Oracle(pre, tg, list(args['forced']), []), shard.get('discard_by'),
                                          args['copy_on'], args['body_raises'])
    return (not ok), why




class Oracle(object):
    pass


from harness.C12 import Oracle  # noqa: E402,F811  (schedule oracle shared with C12; importing C12 also rewrites the async cassette, harmless here)
load()   # rewrite the modules now: exec of module code must not run under CrossHair's tracing
