"""C20 - File interception preserves file bytes and honours the size limit.

Real code executed symbolically: FileInterception (_get_file_path, _is_file_above_size_limit, _mb_size,
_calculate_max_intercepted_size_limit, _intercept_file, _serialize_file / _deserialize_file, _above_limit_result),
InputInterceptionFileDataHandler / OutputInterceptionFileDataHandler, and the full trip through the real recorder
decorators and a real cassette (save, fetch, replay).  Symbolic: the file size in bytes (unbounded int), the limit as
an exact rational L/D MB (D from a concrete set) or taken from the environment variable through the real parsing, how
the path is passed (positionally / by keyword / as a falsy keyword), input vs output handler.  File contents are
opaque tokens; base64/zlib/jsonpickle on actual bytes are contracts.  Oracle: size <= limit => the file is read once
and the identical content is restored at the replayed path / in the holder; size above => the file is never opened and
the placeholder is recorded.  E4: two pure floating-point lemmas (z3, cross-checked with cvc5) generated from
_mb_size's AST tie the rational comparison to the IEEE-754 code; a regex query shows the placeholder is not base64.
"""
import ast
import os
import time
from pbsym import ctx, rig as rigm
from pbsym.ctx import B
from pbsym.models import fs as fsm, b64, quiet

PROPERTY = 'C20'
TECHNIQUE = 'CrossHair/z3 symbolic execution of the file handlers with symbolic size and rational limit on a file-system model; z3 + cvc5 IEEE-754 lemmas generated from _mb_size; concrete real-bytes validator'
FUNCTIONS = ['playback/interception/files/file_interception.py::FileInterception._get_file_path',
             'playback/interception/files/file_interception.py::FileInterception._is_file_above_size_limit',
             'playback/interception/files/file_interception.py::FileInterception._mb_size',
             'playback/interception/files/file_interception.py::FileInterception._calculate_max_intercepted_size_limit',
             'playback/interception/files/file_interception.py::FileInterception._intercept_file',
             'playback/interception/files/file_interception.py::FileInterception._serialize_file',
             'playback/interception/files/file_interception.py::FileInterception._deserialize_file',
             'playback/interception/files/file_interception.py::FileInterception._above_limit_result',
             'playback/interception/files/input_file_interception.py::InputInterceptionFileDataHandler.restore_input_from_recording',
             'playback/interception/files/output_file_interception.py::OutputInterceptionFileDataHandler.restore_output_from_recording',
             'playback/tape_recorder.py::TapeRecorder._execute_func_and_record_interception',
             'playback/tape_recorder.py::TapeRecorder._record_output',
             'playback/tape_recorder.py::TapeRecorder._playback_recorded_interception']
STUBS = ['os.path.getsize / os.getenv / open in the three file-interception modules -> in-memory directory whose files '
         'have an explicit symbolic size', 'base64 -> contract model (decode(encode(c)) == c, encoded != placeholder)',
         'sizes and limits -> exact rationals (the float division of the code is tied to them by the FP lemmas)',
         'jsonpickle -> token model; cassette models as in C01']
ASSUMPTIONS = ['0 <= size < 2**53 bytes (int -> double conversion exact); limit is a finite non-negative number',
               'base64/zlib/jsonpickle preserve actual bytes (C-level code: contract, see OUTSIDE)']
OUTSIDE = ['base64 / zlib / jsonpickle on actual byte contents (symbolic bytes <= 4 through the real base64 did not '
           'confirm in 120 s): e.g. a chunked re-implementation of the base64 step is outside what this check decides',
           'sizes >= 2**53', 'limits that are NaN / infinite']

PLACEHOLDER = None


def _install():
    import playback.interception.files.file_interception as fi
    import playback.interception.files.input_file_interception as ifi
    import playback.interception.files.output_file_interception as ofi
    fs = fsm.FS()
    if not ctx.REAL:
        fi.os = fs
        fi.open = fs.open
        ifi.open = fs.open
        ofi.open = fs.open
        fi.base64 = b64.B64
        fi.len = b64.model_len
        ifi.len = b64.model_len
        ofi.len = b64.model_len
        ifi.os = fs
        import playback.utils.timing_utils as tu
        tu.time = lambda: 0
    return fs, fi


def _limit(kind, lim_n):
    """(value handed to the handler, expected limit as Q or None)"""
    if kind == 'env':
        return None, None
    d = kind
    return quiet.num(lim_n, d), (lim_n, d)


def handler_decision(n: int, lim_n: int, mode: int, falsy: int, stale: int) -> bool:
    """
    pre: 0 <= n < 2 ** 53 and 0 <= lim_n and 0 <= mode <= 2 and 0 <= falsy <= 2 and 0 <= stale <= 2
    post: _
    """
    # the handlers called directly: who reads the file, what is recorded, and what restore gives back
    from playback.interception.files.input_file_interception import InputInterceptionFileDataHandler
    from playback.interception.files.output_file_interception import OutputInterceptionFileDataHandler, \
        InterceptedOutputFileHolder
    ctx.begin()
    fs, fi = _install()
    mode = ctx.pick(mode, (0, 1, 2))
    falsy = ctx.pick(falsy, (0, 1, 2))
    kind = ctx.S('limit')
    content = b64.Content(1, quiet.Q(n, 1))
    if ctx.REAL:
        return _real_decision(n, lim_n, mode, falsy, kind, ctx.pick(stale, (0, 1, 2)))
    fs.put('/data/f', content, size=quiet.Q(n, 1))
    if kind == 'env':
        fs.environ = {'PLAYBACK_INTERCEPTED_FILE_SIZE_LIMIT': ctx.S('env')} if ctx.S('env') is not None else {}
        limit_arg = None
        expected = (int(float(ctx.S('env') or '500')), 1)
    else:
        limit_arg = quiet.Q(lim_n, kind)
        expected = (lim_n, kind)
    is_input = bool(ctx.S('input'))
    H = InputInterceptionFileDataHandler if is_input else OutputInterceptionFileDataHandler
    h = H(1, 'path', limit_arg)
    # how the path reaches the handler: positionally, by keyword, or a falsy keyword next to the positional one
    if mode == 0:
        args, kwargs = ('self', '/data/f'), {}
    elif mode == 1:
        args, kwargs = ('self',), {'path': '/data/f'}
    else:
        args, kwargs = ('self', '/data/f'), {'path': [None, '', 0][falsy]}
    if is_input:
        recorded = h.prepare_input_for_recording('key', None, args, kwargs)
    else:
        recorded = h.prepare_output_for_recording('key', args, kwargs)
    above = n * expected[1] > expected[0] * 1048576
    reads = [p for p, m in fs.opens if 'r' in m and m != 'os.open']
    ok = recorded['file_path'] == '/data/f'
    if above:
        ctx.mark('above-limit')
        ok = ok and reads == [] and recorded['file_content'] == fi.FileInterception.ABOVE_LIMIT_CONTENT
    else:
        ctx.mark('within-limit')
        ok = ok and reads == ['/data/f'] and isinstance(recorded['file_content'], b64.Encoded)
    # restore - onto a path where a stale file (other content, other or same size) already sits
    fs.files, fs.sizes, fs.mtimes, fs.opens = [], [], [], []
    stale_kind = ctx.pick(stale, (0, 1, 2))
    if stale_kind == 1 and n == 0:
        return ctx.done(True)        # two empty files are the same file content: no distinct stale file of size 0 exists
    if stale_kind:
        fs.put('/data/f', b64.Content('stale'), size=quiet.Q(n, 1) if stale_kind == 1 else quiet.Q(n + 7, 1))
    if is_input:
        out = h.restore_input_from_recording(recorded, args, kwargs)
        ok = ok and out == '/data/f' and fs.find('/data/f') >= 0
        got = fs.get('/data/f') if fs.find('/data/f') >= 0 else None
    else:
        holder = h.restore_output_from_recording(recorded)
        ok = ok and isinstance(holder, InterceptedOutputFileHolder) and holder.output_file_path == '/data/f'
        got = holder.file_content
    if above:
        ok = ok and got == fi.FileInterception.ABOVE_LIMIT_CONTENT
    else:
        ok = ok and got == content
    return ctx.done(ok, 'above-limit')


def _real_decision(n, lim_n, mode, falsy, kind, stale=0):
    """replay on the real code: a real temp file of n bytes (n is capped at 8 MiB for the replay), real os/base64"""
    import tempfile
    import shutil
    from playback.interception.files.input_file_interception import InputInterceptionFileDataHandler
    from playback.interception.files.output_file_interception import OutputInterceptionFileDataHandler
    from playback.interception.files.file_interception import FileInterception
    if n > 8 * 1048576:
        raise RuntimeError('replay not attempted for files beyond 8 MiB')
    d = tempfile.mkdtemp(prefix='pbsym-c20-')
    try:
        path = os.path.join(d, 'f')
        data = bytes(bytearray((i * 7 + 3) % 256 for i in range(min(n, 4096)))) * (n // 4096 + 1)
        data = data[:n]
        with open(path, 'wb') as f:
            f.write(data)
        if kind == 'env':
            if ctx.S('env') is not None:
                os.environ['PLAYBACK_INTERCEPTED_FILE_SIZE_LIMIT'] = ctx.S('env')
            else:
                os.environ.pop('PLAYBACK_INTERCEPTED_FILE_SIZE_LIMIT', None)
            limit_arg = None
            expected = (int(float(ctx.S('env') or '500')), 1)
        else:
            limit_arg = float(lim_n) / kind
            expected = (lim_n, kind)
        is_input = bool(ctx.S('input'))
        H = InputInterceptionFileDataHandler if is_input else OutputInterceptionFileDataHandler
        h = H(1, 'path', limit_arg)
        if mode == 0:
            args, kwargs = ('self', path), {}
        elif mode == 1:
            args, kwargs = ('self',), {'path': path}
        else:
            args, kwargs = ('self', path), {'path': [None, '', 0][falsy]}
        recorded = h.prepare_input_for_recording('key', None, args, kwargs) if is_input else \
            h.prepare_output_for_recording('key', args, kwargs)
        above = n * expected[1] > expected[0] * 1048576
        os.remove(path)
        if stale:
            with open(path, 'wb') as f:      # a stale file of the same size / 7 bytes longer at the restore path
                f.write(b'S' * (n if stale == 1 else n + 7))
        if is_input:
            h.restore_input_from_recording(recorded, args, kwargs)
            got = open(path, 'rb').read()
        else:
            got = h.restore_output_from_recording(recorded).file_content
        if above:
            return got == FileInterception.ABOVE_LIMIT_CONTENT
        return got == data
    finally:
        shutil.rmtree(d, ignore_errors=True)


def through_recorder(n: int, lim_n: int, by_keyword: bool) -> bool:
    """
    pre: 0 <= n < 2 ** 53 and 0 <= lim_n
    post: _
    """
    # full trip: recorder decorators with the file data handlers -> cassette -> fetch -> replay
    from playback.interception.files.input_file_interception import InputInterceptionFileDataHandler
    from playback.interception.files.output_file_interception import OutputInterceptionFileDataHandler
    ctx.begin()
    if ctx.REAL:
        return _real_through(n, lim_n, by_keyword)
    fs, fi = _install()
    r = rigm.build(ctx.S('cassette'), spy=True)
    tr = r.tr
    lim = quiet.Q(lim_n, 1)
    cin, cout = b64.Content('in'), b64.Content('out')
    fs.put('/in', cin, size=quiet.Q(n, 1))
    seen = []

    class Svc(object):
        @tr.operation()
        def execute(self):
            p = self.fetch('/in') if not by_keyword else self.fetch(path='/in')
            seen.append(fs.get('/in') if fs.find('/in') >= 0 else None)
            fs.put('/out', cout, size=quiet.Q(n, 1))
            self.publish('/out') if not by_keyword else self.publish(path='/out')
            return 0

        @tr.intercept_input('fetch', data_handler=InputInterceptionFileDataHandler(1, 'path', lim))
        def fetch(self, path):
            return path

        @tr.intercept_output('publish', data_handler=OutputInterceptionFileDataHandler(0, 'path', lim))
        def publish(self, path):
            return None
    Svc().execute()
    rid = rigm.last_saved_id(r)
    if rid is None:
        return ctx.done(False)
    above = n > lim_n * 1048576
    reads_rec = [p for p, m in fs.opens if 'r' in m]
    # replay on a machine where the input file does not exist
    fs.files, fs.sizes, fs.mtimes, fs.opens = [], [], [], []
    del seen[:]
    pb = tr.play(rid, lambda recording: Svc().execute())
    handler = OutputInterceptionFileDataHandler(1, 'path', lim)
    placeholder = fi.FileInterception.ABOVE_LIMIT_CONTENT
    ok = True
    if above:
        ctx.mark('above-limit')
        ok = ok and reads_rec == [] and seen == [placeholder]
    else:
        ctx.mark('within-limit')
        ok = ok and sorted(reads_rec) == ['/in', '/out'] and seen == [cin]
    for outs in (pb.recorded_outputs, pb.playback_outputs):
        found = [o for o in outs if o.key.startswith('output: publish')]
        ok = ok and len(found) == 1
        for o in found:
            holder = handler.restore_output_from_recording(o.value)
            ok = ok and holder.output_file_path == '/out' and holder.file_content == (placeholder if above else cout)
    return ctx.done(ok, 'within-limit')


def _real_through(n, lim_n, by_keyword):
    import tempfile
    import shutil
    from playback.interception.files.input_file_interception import InputInterceptionFileDataHandler
    from playback.interception.files.output_file_interception import OutputInterceptionFileDataHandler
    from playback.interception.files.file_interception import FileInterception
    if n > 4 * 1048576:
        raise RuntimeError('replay not attempted for files beyond 4 MiB')
    d = tempfile.mkdtemp(prefix='pbsym-c20-')
    try:
        pin, pout = os.path.join(d, 'in'), os.path.join(d, 'out')
        data = (bytes(bytearray((i * 11 + 1) % 256 for i in range(4096))) * (n // 4096 + 1))[:n]
        dout = data[::-1]
        open(pin, 'wb').write(data)
        r = rigm.build(ctx.S('cassette'), spy=True)
        tr = r.tr
        seen = []

        class Svc(object):
            @tr.operation()
            def execute(self):
                self.fetch(pin) if not by_keyword else self.fetch(path=pin)
                seen.append(open(pin, 'rb').read())
                open(pout, 'wb').write(dout)
                self.publish(pout) if not by_keyword else self.publish(path=pout)
                return 0

            @tr.intercept_input('fetch', data_handler=InputInterceptionFileDataHandler(1, 'path', float(lim_n)))
            def fetch(self, path):
                return path

            @tr.intercept_output('publish', data_handler=OutputInterceptionFileDataHandler(0, 'path', float(lim_n)))
            def publish(self, path):
                return None
        Svc().execute()
        rid = rigm.last_saved_id(r)
        os.remove(pin)
        del seen[:]
        pb = tr.play(rid, lambda recording: Svc().execute())
        above = n > lim_n * 1048576
        ok = seen == [FileInterception.ABOVE_LIMIT_CONTENT if above else data]
        h = OutputInterceptionFileDataHandler(1, 'path', float(lim_n))
        for outs in (pb.recorded_outputs, pb.playback_outputs):
            for o in outs:
                if o.key.startswith('output: publish'):
                    ok = ok and h.restore_output_from_recording(o.value).file_content == \
                        (FileInterception.ABOVE_LIMIT_CONTENT if above else dout)
        return ok
    finally:
        shutil.rmtree(d, ignore_errors=True)


_LIM = [{'limit': d, 'input': i} for d in (1, 3, 1000) for i in (True, False)] + \
       [{'limit': 'env', 'env': e, 'input': True} for e in (None, '1', '0.5', '2.9')]
CONDITIONS = [
    {'fn': 'handler_decision', 'nontrivial': 'above-limit',
     'what': 'size (symbolic bytes) vs limit L/D MB (D = shard) or the environment variable; path positional / keyword / '
             'falsy keyword; input and output handler; restore gives back content or placeholder',
     'tiers': {'quick': {'bounds': {}, 'timeout': 300, 'shards': _LIM, 'witness_shard': _LIM[0]},
               'thorough': {'bounds': {}, 'timeout': 1200, 'shards': _LIM + [{'limit': d, 'input': i} for d in (7, 1024, 10 ** 6) for i in (True, False)],
                            'witness_shard': _LIM[0]}}},
    {'fn': 'through_recorder', 'nontrivial': 'within-limit',
     'what': 'file handlers under the real recorder decorators through every cassette: replay restores the input file at '
             'the replayed path; recorded and replayed output holders carry the content or the placeholder',
     'tiers': {'quick': {'bounds': {}, 'timeout': 300, 'shards': [{'cassette': c} for c in ('mem', 'file', 's3')],
                         'witness_shard': {'cassette': 'mem'}},
               'thorough': {'bounds': {}, 'timeout': 1200, 'shards': [{'cassette': c} for c in ('mem', 'file', 's3')],
                            'witness_shard': {'cassette': 'mem'}}}},
]


# ----------------------------------------------------------------------------------------------- E4: FP lemmas

def _mb_divisor(src_root):
    """read `return size / (<c1> * <c2>)` from _mb_size; returns the constant K or raises"""
    path = os.path.join(src_root, 'playback/interception/files/file_interception.py')
    tree = ast.parse(open(path).read())
    fn = [n for n in ast.walk(tree) if isinstance(n, ast.FunctionDef) and n.name == '_mb_size'][0]
    rets = [n for n in ast.walk(fn) if isinstance(n, ast.Return)]
    if len(rets) != 1 or not isinstance(rets[0].value, ast.BinOp) or not isinstance(rets[0].value.op, ast.Div):
        raise NotImplementedError('_mb_size is not `size / K`: %s' % ast.unparse(fn)[:200])
    e = rets[0].value
    if not (isinstance(e.left, ast.Name) and e.left.id == 'size'):
        raise NotImplementedError('numerator is not `size`')
    k = eval(compile(ast.Expression(e.right), '<k>', 'eval'), {'__builtins__': {}})
    return float(k), ast.unparse(e)


def extra_obligations(tier, src_root, excluded):
    import z3
    out = []
    try:
        K, text = _mb_divisor(src_root)
    except Exception as ex:
        return [{'name': 'FP lemmas for _mb_size', 'state': 'inconclusive', 'message': repr(ex)[:300]}]
    if K != 1048576.0:
        # the harness' rational model divides by exactly 2**20; any other constant contradicts "size in MB"
        return [{'name': 'FP lemmas for _mb_size', 'state': 'violation', 'args': {'K': K},
                 'detail': '_mb_size divides by %r, not by 2**20 (expr %s): sizes are no longer megabytes' % (K, text)}]
    n = z3.BitVec('n', 64)
    rm = z3.RNE()
    f64 = z3.Float64()
    Kf = z3.FPVal(K, f64)
    size = z3.fpSignedToFP(rm, n, f64)
    mb = z3.fpDiv(rm, size, Kf)
    rng = z3.ULT(n, z3.BitVecVal(2 ** 53, 64))
    lemmas = [
        ('int -> double conversion of the size is exact for 0 <= n < 2**53', z3.fpToSBV(z3.RTZ(), size, z3.BitVecSort(64)) != n),
        ('fp(n) / %r * %r == fp(n): the division in _mb_size (%s) is exact, so the float comparison with any limit equals '
         'the rational comparison' % (K, K, text), z3.Not(z3.fpEQ(z3.fpMul(rm, mb, Kf), size))),
    ]
    for name, neg in lemmas:
        s = z3.Solver()
        s.set('timeout', 120000)
        s.add(rng, neg)
        t0 = time.time()
        res = str(s.check())
        dt = time.time() - t0
        o = {'name': name + ' (z3 QF_FP)', 'queries': 1, 'solver_s': round(dt, 2)}
        if res == 'unsat':
            o['state'] = 'confirmed'
            o['sample'] = {'obligation': name, 'solver': 'z3', 'result': 'unsat'}
        elif res == 'sat':
            o['state'] = 'inconclusive'
            o['message'] = 'lemma refuted by z3: %s' % s.model()
        else:
            o['state'] = 'inconclusive'
            o['message'] = 'z3: ' + res
        out.append(o)
        try:
            import cvc5
            slv = cvc5.Solver()
            slv.setOption('tlimit-per', '120000')
            text2 = '\n'.join(ln for ln in s.to_smt2().splitlines() if not ln.startswith('(set-logic'))
            ip = cvc5.InputParser(slv)
            ip.setStringInput(cvc5.InputLanguage.SMT_LIB_2_6, '(set-logic QF_BVFP)\n' + text2, 'c20')
            sm = ip.getSymbolManager()
            r2 = None
            while True:
                cmd = ip.nextCommand()
                if cmd.isNull():
                    break
                ans = cmd.invoke(slv, sm).strip()
                if ans in ('sat', 'unsat', 'unknown'):
                    r2 = ans
            out.append({'name': name[:60] + '… cross-check cvc5', 'queries': 1,
                        'state': 'confirmed' if r2 == 'unsat' and res == 'unsat' else 'inconclusive',
                        'message': 'cvc5=%s z3=%s' % (r2, res), 'detail': 'cvc5=%s z3=%s' % (r2, res)})
        except Exception as ex:
            out.append({'name': name[:60] + '… cross-check cvc5', 'state': 'inconclusive', 'message': repr(ex)[:200]})
    # the placeholder can never be produced by base64: it is not in the language of the base64 alphabet
    import playback.interception.files.file_interception as fi
    ph = fi.FileInterception.ABOVE_LIMIT_CONTENT.decode('latin-1')
    alpha = z3.Union(z3.Range('A', 'Z'), z3.Range('a', 'z'), z3.Range('0', '9'), z3.Re('+'), z3.Re('/'), z3.Re('='), z3.Re('\n'))
    s = z3.Solver()
    s.add(z3.InRe(z3.StringVal(ph), z3.Star(alpha)))
    t0 = time.time()
    res = str(s.check())
    out.append({'name': 'the above-limit placeholder %r is not a base64 text (z3 regex)' % ph, 'queries': 1,
                'solver_s': round(time.time() - t0, 2), 'state': 'confirmed' if res == 'unsat' else 'inconclusive',
                'message': 'placeholder is a valid base64 text: a file whose encoding equals it would be mistaken for '
                           'the placeholder' if res == 'sat' else res})
    return out


def validate_models():
    """base64 / file handling on ACTUAL bytes is outside what the solver decides (contract model); this concrete
    validator pushes real files of boundary sizes through the real handlers (real os / base64) and compares bytes.
    A mismatch is a concrete C20 counterexample on the real code and is reported as a violation found by testing."""
    import subprocess
    import sys
    import json
    code = r'''
import sys, json, os, tempfile, shutil
sys.path.insert(0, %r); sys.path.insert(0, %r)
import logging; logging.disable(logging.CRITICAL)
from playback.interception.files.input_file_interception import InputInterceptionFileDataHandler
from playback.interception.files.output_file_interception import OutputInterceptionFileDataHandler
from playback.interception.files.file_interception import FileInterception
M = 1048576
bad = []; vec = 0
d = tempfile.mkdtemp(prefix='pbsym-c20v-')
try:
    for n, lim in ((0, 1), (1, 1), (3, 1), (M - 1, 1), (M, 1), (M + 1, 1), (M + 1, 2), (2 * M + 5, 3), (3 * M, 3), (3 * M + 1, 3)):
        for contents in ('pattern', 'placeholder-text', 'newlines'):
            base = {'pattern': bytes(bytearray((i * 7 + 3) %% 256 for i in range(4099))),
                    'placeholder-text': FileInterception.ABOVE_LIMIT_CONTENT, 'newlines': b'\\n\\r\\n\\x00'}[contents]
            data = (base * (n // len(base) + 1))[:n]
            path = os.path.join(d, 'f')
            open(path, 'wb').write(data)
            above = n > lim * M
            for H, is_in in ((InputInterceptionFileDataHandler, True), (OutputInterceptionFileDataHandler, False)):
                vec += 1
                h = H(0, 'path', lim)
                rec = h.prepare_input_for_recording('k', None, (path,), {}) if is_in else h.prepare_output_for_recording('k', (path,), {})
                if is_in:
                    os.remove(path)
                    h.restore_input_from_recording(rec, (path,), {})
                    got = open(path, 'rb').read()
                else:
                    got = h.restore_output_from_recording(rec).file_content
                want = FileInterception.ABOVE_LIMIT_CONTENT if above else data
                if got != want:
                    bad.append({'size': n, 'limit_mb': lim, 'content': contents, 'input_handler': is_in, 'restored_len': len(got)})
finally:
    shutil.rmtree(d, ignore_errors=True)
print('@@' + json.dumps({'vectors': vec, 'bad': bad[:4], 'n_bad': len(bad)}))
''' % (os.environ.get('PB_SRC', '/repo'), os.path.dirname(os.path.dirname(os.path.abspath(__file__))))
    p = subprocess.run([sys.executable, '-c', code], stdout=subprocess.PIPE, stderr=subprocess.PIPE, timeout=600)
    out = p.stdout.decode()
    if '@@' not in out:
        return [{'name': 'real file handlers on boundary sizes', 'vectors': 0, 'differences': -1, 'error': p.stderr.decode()[-400:]}]
    d = json.loads(out[out.index('@@') + 2:])
    res = {'name': 'real os/base64 file handlers: bytes restored identically for sizes around the limit and around 1 MiB',
           'vectors': d['vectors'], 'differences': d['n_bad'], 'error': str(d['bad'])[:300]}
    if d['n_bad']:
        res['violation'] = d['bad'][0]
    return [res]
