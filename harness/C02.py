"""C02 - Replay answers every interception from the recording or an explicit policy.

Real code executed symbolically: the input/output decorators' replay branches (_intercept_input policies: fallback
aliases, run-original, substitute value; _intercept_output: fail flag / default result), _playback_recorded_interception,
the operation decorator's replay short-circuit, play().  Symbolic: the recorded program and an *independent* replayed
program (lists of opcodes over two input aliases, a legacy alias and an output), the missing-key options (fallback
kind, run-original flag, substitute kind incl. the falsy ones, fail flag, default result), whether recording is enabled
while replaying, one or two replays.  Oracle: a reference of the documented precedence; wrapped bodies run only for
opted-in run-original calls; the cassette sees no create/save/abort and its stored payload is unchanged.
"""
import copy
from typing import List
from pbsym import ctx, rig as rigm
from pbsym.ctx import B
from pbsym.models import serializer

PROPERTY = 'C02'
TECHNIQUE = 'CrossHair/z3 symbolic execution of the replay branches of the real decorators over symbolic recorded/replayed programs and missing-key options; reference policy oracle'
FUNCTIONS = ['playback/tape_recorder.py::TapeRecorder._intercept_input',
             'playback/tape_recorder.py::TapeRecorder._intercept_output',
             'playback/tape_recorder.py::TapeRecorder._playback_recorded_interception',
             'playback/tape_recorder.py::TapeRecorder._operation',
             'playback/tape_recorder.py::TapeRecorder._execute_operation_func',
             'playback/tape_recorder.py::TapeRecorder._record_output',
             'playback/tape_recorder.py::TapeRecorder.play',
             'playback/tape_recorder.py::TapeRecorder._input_interception_key',
             'playback/recordings/memory/memory_recording.py::MemoryRecording.get_data_direct']
STUBS = ['jsonpickle encode/decode -> token model; key text -> kenc', 'time/uuid -> models', 'cassette wrapped by a spy']
ASSUMPTIONS = ['environment values are concrete and pairwise distinct (a wrong injection is then observable); '
               'universality over values comes from C01/C06']
OUTSIDE = ['programs longer than the bound; more than one fallback alias present at once beyond the listed shapes']

# opcodes of the recorded program: 0,1 = a(0),a(1); 2,3 = old_a(0),old_a(1) (legacy alias); 4,5 = b(0),b(1); 6 = o(acc)
# opcodes of the replayed program: 0,1 = a(x); 4,5 = b(x); 6 = o(acc)
VAL = {('a', 0): 10, ('a', 1): 11, ('A_old', 0): 20, ('A_old', 1): 21, ('b', 0): 30, ('b', 1): 31}
LIVE = 1000
SUBST = [None, 0, '', [], False, 5, 'callable']
FALLBACK = ['none', 'list', 'function', 'list-with-absent-first']


class Cfg(object):
    pass


def make(tr, cfg, run, live):
    from playback.exceptions import RecordingKeyError
    subst = SUBST[cfg.subst]
    if subst == 'callable':
        def subst(self, x):       # noqa
            run['subst_calls'].append(x)
            return 77 + x
    fb = None
    if cfg.fallback == 1:
        fb = ['A_old']
    elif cfg.fallback == 2:
        def fb(self, x):          # noqa
            return ['A_old']
    elif cfg.fallback == 3:
        fb = ['never_recorded', 'A_old']

    from playback.interception.output_interception import OutputInterceptionDataHandler

    class OutH(OutputInterceptionDataHandler):
        """prepares fine while recording; raises while replaying (e.g. the file it reads does not exist there)"""
        def prepare_output_for_recording(self, interception_key, args, kwargs):
            run['handler'].append(interception_key)
            if tr.in_playback_mode:
                raise IOError('not available on the replay machine')
            return {'args': list(args), 'kwargs': kwargs}

        def restore_output_from_recording(self, recorded_data):
            return recorded_data
    okw = {'data_handler': OutH()} if cfg.out_handler else {}

    class Svc(object):
        @tr.operation()
        def execute(self):
            acc = 0
            for op in run['script']:
                try:
                    if op in (0, 1):
                        r = self.a(op)
                    elif op in (2, 3):
                        r = self.old_a(op - 2)
                    elif op in (4, 5):
                        r = self.b(op - 4)
                    else:
                        r = self.o(acc)
                    run['site'].append(('ret', r))
                    if isinstance(r, int):
                        acc = acc + r
                except RecordingKeyError:
                    run['site'].append(('missing',))
            return acc

        @tr.intercept_input('a', fallback_aliases=fb, run_intercepted_when_missing=cfg.run_missing,
                            value_when_missing=subst)
        def a(self, x):
            run['journal'].append(('a', x))
            if cfg.nested:
                # the body of a wraps another, recorded, interception (a new interception added around old ones):
                # when a's original runs during replay because it is missing, b must still be answered from the recording
                run['nested'].append(self.b(0))
            return VAL[('a', x)] + live

        @tr.intercept_input('A_old')
        def old_a(self, x):  # legacy alias: its key text sorts BEFORE the main alias' (decoded recordings iterate in key order)
            run['journal'].append(('A_old', x))
            return VAL[('A_old', x)] + live

        @tr.intercept_input('b')
        def b(self, x):
            run['journal'].append(('b', x))
            return VAL[('b', x)] + live

        @tr.intercept_output('o', fail_on_no_recorded_result=cfg.fail_out,
                             default_result_when_not_recorded=cfg.default_out, **okw)
        def o(self, v):
            run['journal'].append(('o', v))
            return 500 + len([j for j in run['journal'] if j[0] == 'o']) + live
    return Svc


def _lrec():
    """bound on the symbolic part of the recorded program: the shard may fix its first opcode (None = empty program)"""
    first = ctx.S('first', -1)
    if first is None:
        return 0
    return B('LREC') - (1 if first >= 0 else 0)


def _lrep():
    first = ctx.S('firstrep', -1)
    if first is None:
        return 0
    return B('LREP') - (1 if first >= 0 else 0)


def _new_run(script):
    return {'script': script, 'site': [], 'journal': [], 'subst_calls': [], 'nested': [], 'handler': []}


def _reference(cfg, rec_script, rep_script):
    """documented policy -> (expected call-site log, expected body journal)"""
    have = set()
    n_out = 0
    for op in rec_script:
        if op in (0, 1):
            have.add(('a', op))
        elif op in (2, 3):
            have.add(('A_old', op - 2))
        elif op in (4, 5):
            have.add(('b', op - 4))
        else:
            n_out += 1
    site = []
    journal = []
    k = 0
    for op in rep_script:
        if op in (0, 1):
            if ('a', op) in have:
                site.append(('ret', VAL[('a', op)]))
            elif cfg.fallback != 0 and ('A_old', op) in have:
                site.append(('ret', VAL[('A_old', op)]))
            elif cfg.run_missing:
                journal.append(('a', op))
                if cfg.nested and ('b', 0) not in have:
                    # a's original runs and asks for b(0), which the recording lacks: the missing-key error surfaces
                    site.append(('missing',))
                else:
                    site.append(('ret', VAL[('a', op)] + LIVE))
            elif SUBST[cfg.subst] is not None:
                s = SUBST[cfg.subst]
                site.append(('ret', 77 + op if s == 'callable' else s))
            else:
                site.append(('missing',))
        elif op in (4, 5):
            if ('b', op - 4) in have:
                site.append(('ret', VAL[('b', op - 4)]))
            else:
                site.append(('missing',))
        else:
            k += 1
            if k <= n_out:
                site.append(('ret', 500 + k))
            elif cfg.fail_out:
                site.append(('missing',))
            else:
                site.append(('ret', cfg.default_out))
    return site, journal


def _policy(rec, rep, run_missing, fail_out, default_out, enabled_during_replay, twice):
    ctx.begin()
    cfg = Cfg()
    cfg.fallback = ctx.S('fallback', 0)
    cfg.subst = ctx.S('subst', 0)
    cfg.run_missing = run_missing
    cfg.fail_out = fail_out
    cfg.default_out = default_out
    cfg.nested = bool(ctx.S('nested'))
    cfg.out_handler = bool(ctx.S('out_handler'))
    if ctx.excluded('C02-falsy-substitute', cfg.subst in (1, 2, 3, 4)):
        return True
    rec = [ctx.pick(x, range(7)) for x in rec]
    first = ctx.S('first', -1)
    if first is not None and first >= 0:
        rec = [first] + rec
    frep = ctx.S('firstrep', -1)
    if frep is not None and frep >= 0:
        rep = [frep] + rep
    rep = [ctx.pick(x, (0, 1, 4, 5, 6)) for x in rep]
    r = rigm.build('mem', spy=True)
    tr = r.tr
    run1 = _new_run(rec)
    make(tr, cfg, run1, 0)().execute()
    rid = rigm.last_saved_id(r)
    if rid is None:
        return ctx.done(False)
    if not ctx.REAL:
        stored_before = copy.deepcopy(serializer.peek(r.inner._recordings[rid]).recording_data)
    else:
        stored_before = r.inner._recordings[rid]
    mutations_before = len(r.cassette.mutations())
    if not enabled_during_replay:
        tr.disable_recording()
    want_site, want_journal = _reference(cfg, rec, rep)
    ok = True
    for _ in range(2 if twice else 1):
        run2 = _new_run(rep)
        Svc2 = make(tr, cfg, run2, LIVE)
        tr.play(rid, lambda recording: Svc2().execute())
        ok = ok and run2['site'] == want_site and run2['journal'] == want_journal
    ok = ok and len(r.cassette.mutations()) == mutations_before
    if not ctx.REAL:
        ok = ok and serializer.peek(r.inner._recordings[rid]).recording_data == stored_before
    else:
        ok = ok and r.inner._recordings[rid] == stored_before
    if any(s == ('missing',) for s in want_site) or want_journal:
        ctx.mark('missing-key-policy')
    if cfg.fallback and any(op in (0, 1) and op not in rec and (op + 2) in rec for op in rep):
        ctx.mark('fallback-hit')
    return ctx.done(ok, 'missing-key-policy')


def policy_input_options(rec: List[int], rep: List[int], run_missing: bool, enabled_during_replay: bool,
                         twice: bool) -> bool:
    """
    pre: len(rec) <= B('LREC') and 1 <= len(rep) <= B('LREP')
    pre: all(x in B('RECOPS') for x in rec) and all(x in B('REPOPS') for x in rep)
    post: _
    """
    # every (fallback kind, substitute kind) shard: what an `a` call gets for every content of the recording
    return _policy(rec, rep, run_missing, True, 0, enabled_during_replay, twice)


def policy_programs(rec: List[int], rep: List[int], run_missing: bool, fail_out: bool, default_out: int,
                    enabled_during_replay: bool, twice: bool) -> bool:
    """
    pre: len(rec) <= _lrec() and len(rep) <= _lrep()
    pre: all(x in B('RECOPS') for x in rec) and all(x in B('REPOPS') for x in rep)
    post: _
    """
    # independent recorded / replayed programs mixing both input aliases, the legacy alias and outputs
    return _policy(rec, rep, run_missing, fail_out, default_out, enabled_during_replay, twice)


_SH = [{'fallback': f, 'subst': s} for f in range(4) for s in range(7)]
_W = {'fallback': 1, 'subst': 5}
CONDITIONS = [
    {'fn': 'policy_input_options', 'nontrivial': 'missing-key-policy',
     'what': 'an input call replayed against every recording content under every missing-key option combination; '
             'sharded by (fallback kind, substitute kind incl. falsy)',
     'tiers': {'quick': {'bounds': {'LREC': 2, 'LREP': 1, 'RECOPS': [0, 2, 3], 'REPOPS': [0]}, 'timeout': 300,
                         'shards': _SH, 'witness_shard': _W},
               'thorough': {'bounds': {'LREC': 3, 'LREP': 2, 'RECOPS': [0, 2, 3], 'REPOPS': [0, 1]}, 'timeout': 3000,
                            'shards': _SH, 'witness_shard': _W}}},
    {'fn': 'policy_programs', 'nontrivial': 'missing-key-policy',
     'what': 'independent recorded and replayed programs over two input aliases, a legacy alias and an output',
     'tiers': {'quick': {'bounds': {'LREC': 2, 'LREP': 2, 'RECOPS': [0, 2, 6], 'REPOPS': [0, 1, 6]}, 'timeout': 600,
                         'shards': [{'fallback': 1, 'subst': 5, 'first': x, 'firstrep': y} for x in (None, 0, 2, 6)
                                    for y in (None, 0, 1, 6)] +
                                   [{'fallback': 0, 'subst': 0, 'first': x, 'firstrep': y, 'nested': True} for x in (None, 4) for y in (0, 6)] +
                                   [{'fallback': 0, 'subst': 0, 'first': 6, 'firstrep': y, 'out_handler': True} for y in (0, 6)],
                         'witness_shard': {'fallback': 1, 'subst': 5, 'first': 0, 'firstrep': 1}},
               'thorough': {'bounds': {'LREC': 2, 'LREP': 2, 'RECOPS': [0, 2, 4, 6], 'REPOPS': [0, 1, 4, 6]},
                            'timeout': 6000,
                            'shards': [{'fallback': f, 'subst': sb, 'first': x, 'firstrep': y}
                                       for f, sb in ((1, 5), (3, 1))
                                       for x in (None, 0, 2, 4, 6) for y in (None, 0, 1, 6)] +
                                      [{'fallback': f, 'subst': 0, 'first': x, 'firstrep': y, 'nested': True} for f in (0, 1)
                                       for x in (None, 0, 2, 4) for y in (0, 1, 6)] +
                                      [{'fallback': 0, 'subst': 0, 'first': x, 'firstrep': y, 'out_handler': True} for x in (None, 0, 6) for y in (0, 6)],
                            'witness_shard': {'fallback': 1, 'subst': 5, 'first': 0, 'firstrep': 1}}}},
]
