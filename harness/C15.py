"""C15 - S3 cassette writes are confined: read-only, own prefix, complete-before-visible.

Real code executed symbolically: S3TapeCassette.__init__ (prefix normalisation), create_new_recording /
_assert_not_read_only, _save_recording (order of the two puts), get_recording, get_recording_metadata,
iter_recording_ids, close / __exit__, S3BasicFacade.put_string / get_string / iter_keys / delete_by_prefix.
Symbolic: the key-prefix TEXTS of two cassettes sharing one bucket (<= 2 chars, may be empty, equal or string
prefixes of one another), read_only / transient flags, a call sequence (create+save / get / list / close /
context-manager exit), pre-existing foreign objects with symbolic keys, the bucket mutation after which a save crashes.
Oracle on the bucket model's mutation/intent log and contents.
"""
from typing import List
from pbsym import ctx
from pbsym.ctx import B
from pbsym.models import s3env, s3 as fs3

PROPERTY = 'C15'
TECHNIQUE = 'CrossHair/z3 over the real S3 cassette on a bucket model with mutation/intent log and crash injection: symbolic prefix texts (one-save scenario) and solver-enumerated prefix words / call sequences / crash points'
FUNCTIONS = ['playback/tape_cassettes/s3/s3_tape_cassette.py::S3TapeCassette.__init__',
             'playback/tape_cassettes/s3/s3_tape_cassette.py::S3TapeCassette.create_new_recording',
             'playback/tape_cassettes/s3/s3_tape_cassette.py::S3TapeCassette._assert_not_read_only',
             'playback/tape_cassettes/s3/s3_tape_cassette.py::S3TapeCassette._save_recording',
             'playback/tape_cassettes/s3/s3_tape_cassette.py::S3TapeCassette.get_recording',
             'playback/tape_cassettes/s3/s3_tape_cassette.py::S3TapeCassette.get_recording_metadata',
             'playback/tape_cassettes/s3/s3_tape_cassette.py::S3TapeCassette.iter_recording_ids',
             'playback/tape_cassettes/s3/s3_tape_cassette.py::S3TapeCassette.close',
             'playback/tape_cassettes/s3/s3_basic_facade.py::S3BasicFacade.put_string',
             'playback/tape_cassettes/s3/s3_basic_facade.py::S3BasicFacade.delete_by_prefix',
             'playback/tape_cassettes/s3/s3_basic_facade.py::S3BasicFacade.iter_keys',
             'playback/tape_cassette.py::TapeCassette.__exit__']
STUBS = ['boto3 -> bucket model (association list, mutation/intent log incl. deletes that match nothing, crash after the '
         'k-th applied mutation); jsonpickle -> token model; zlib -> blob; uuid/datetime -> models; parse -> model']
ASSUMPTIONS = ['S3 semantics as documented by boto3 (no executable reference offline)',
               'category texts contain no "/" and prefixes no "{" "}" (str.format placeholders)']
OUTSIDE = ['completeness of discoverable recordings during the clean-up of a transient close (excluded by the property)',
           'prefix texts longer than the bound', 'call sequences longer than the bound']

ROOT = 'tape_recorder_recordings/'


def _area(prefix):
    base = ROOT + ((prefix + '/') if prefix else '')
    return base + 'full/', base + 'metadata/'


def _in_area(key, prefix):
    a, b = _area(prefix)
    return key.startswith(a) or key.startswith(b)


def _mk(prefix, read_only, transient):
    from playback.tape_cassettes.s3.s3_tape_cassette import S3TapeCassette
    return S3TapeCassette('bkt', key_prefix=prefix, read_only=read_only, transient=transient)


def _words():
    """all prefix texts of length <= P over the tier's alphabet (a finite word list keeps the solver from enumerating
    characters that the precondition would reject anyway)"""
    out = ['']
    layer = ['']
    for _ in range(B('P')):
        layer = [w + a for w in layer for a in B('ALPHA')]
        out += layer
    return out


def confined(p1: str, p2: str, ro: bool, tr_: bool, calls: List[int], foreign: str, use_with: bool) -> bool:
    """
    pre: p1 in B('P1') and p2 in B('P2') and foreign in B('FOREIGN') and len(calls) <= B('C')
    pre: all(0 <= c <= 3 for c in calls)
    post: _
    """
    # cassette 1 (prefix p1, symbolic flags) performs a call sequence in a bucket that also holds a foreign object and
    # recordings of cassette 2 (prefix p2); calls: 0 create+save, 1 get first own id, 2 list, 3 metadata of first own id
    ctx.begin()
    ro, tr_ = ctx.S('ro', ro), ctx.S('tr', tr_)
    # texts become concrete by fork (one path per word): the bucket code does dozens of prefix tests per run
    if ctx.S('p1') is not None:
        if p1 != ctx.S('p1'):
            return True
        p1 = ctx.S('p1')
    p1, p2, foreign = ctx.pick(p1, B('P1')), ctx.pick(p2, B('P2')), ctx.pick(foreign, B('FOREIGN'))
    calls = [ctx.pick(c, range(4)) for c in calls]
    ro, tr_, use_with = (True if ro else False), (True if tr_ else False), (True if use_with else False)
    with ctx.untraced():
        ok, marks = _confined(p1, p2, ro, tr_, calls, foreign, use_with)
    for m in marks:
        ctx.mark(m)
    return ctx.done(ok, 'transient-cleanup')


def _confined(p1, p2, ro, tr_, calls, foreign, use_with):
    marks = []
    env = s3env.install()
    store = env.store
    fkey = ROOT + foreign
    store.seed(fkey, b'foreign', 0)
    store.seed('elsewhere/' + foreign, b'foreign2', 0)
    c2 = _mk(p2, False, False)
    r2 = c2.create_new_recording('Two')
    r2.set_data('k', 2)
    c2.save_recording(r2)
    own_before = [k for k in store.keys()]
    store.log = []
    cas = _mk(p1, ro, tr_)
    saved = []
    wrote = False

    def run_calls():
        nonlocal wrote
        for c in calls:
            if c == 0:
                try:
                    rec = cas.create_new_recording('One')
                    rec.set_data('k', 1)
                    cas.save_recording(rec)
                    saved.append(rec.id)
                    wrote = True
                except AssertionError:
                    pass
            elif c == 1 and saved:
                cas.get_recording(saved[0])
            elif c == 2:
                list(cas.iter_recording_ids('One'))
            elif c == 3 and saved:
                cas.get_recording_metadata(saved[0])
    if use_with:
        with cas:
            run_calls()
    else:
        run_calls()
        cas.close()
    ok = True
    same_area = (p1 == p2)
    if ro:
        ok = ok and store.log == [] and not wrote
        marks.append('read-only')
    for kind, key in store.log:
        if kind == 'delete_prefix':
            # the delete request itself must be scoped to one of the two own areas
            a, b = _area(p1)
            ok = ok and (key == a or key == b)
        else:
            ok = ok and _in_area(key, p1)
    # foreign objects and the other cassette's recordings survive unless they live inside cassette 1's own area
    for k in own_before:
        if not _in_area(k, p1):
            ok = ok and store.find(k) >= 0
    if not ro and tr_:
        ok = ok and not any(_in_area(k, p1) for k in store.keys())
        if wrote:
            marks.append('transient-cleanup')
    if not ro and not tr_ and wrote:
        a, b = _area(p1)
        for rid in saved:
            ok = ok and store.find(a + rid) >= 0 and store.find(b + rid) >= 0
    return ok, marks


def confined_symbolic(prefix: str, read_only: bool, transient: bool, cat: str, foreign: str) -> bool:
    """
    pre: len(prefix) <= B('PL') and len(cat) == 1 and len(foreign) <= B('FL')
    pre: cat not in ('/', '{', '}', '.') and '{' not in prefix and '}' not in prefix
    post: _
    """
    # the same confinement claims with the prefix, category and foreign key kept as genuinely symbolic TEXTS (any
    # characters): one create + save + close in a bucket holding one foreign object
    ctx.begin()
    env = s3env.install()
    store = env.store
    own = ROOT + ((prefix + '/') if prefix else '')
    fkey = ROOT + foreign
    store.seed(fkey, b'x', 0)
    cas = _mk(prefix, read_only, transient)
    wrote = False
    try:
        rec = cas.create_new_recording(cat)
        rec.set_data('k', 1)
        cas.save_recording(rec)
        wrote = True
    except AssertionError:
        pass
    cas.close()
    ok = True
    if read_only:
        ok = ok and store.log == [] and not wrote
    for kind, key in store.log:
        ok = ok and (key.startswith(own + 'full/') or key.startswith(own + 'metadata/'))
    if not fkey.startswith(own + 'full/') and not fkey.startswith(own + 'metadata/'):
        ok = ok and store.find(fkey) >= 0
    if not read_only and transient:
        ok = ok and not any(k.startswith(own + 'full/') or k.startswith(own + 'metadata/') for k in store.keys())
        ctx.mark('transient')
    return ctx.done(ok, 'transient')


def crash_during_save(p1: str, crash_at: int, n_saves: int, sizeclass: bool) -> bool:
    """
    pre: p1 in B('P1')
    pre: 1 <= crash_at <= 2 * B('N') and 1 <= n_saves <= B('N')
    post: _
    """
    # the process dies right after the crash_at-th bucket mutation; afterwards every recording a fresh read-only
    # cassette can discover is completely fetchable and its stand-alone metadata agrees
    ctx.begin()
    p1 = ctx.pick(p1, B('P1'))
    crash_at = ctx.pick(crash_at, range(1, 2 * B('N') + 1))
    n_saves = ctx.pick(n_saves, range(1, B('N') + 1))
    sizeclass = True if sizeclass else False
    with ctx.untraced():
        ok, crashed = _crash(p1, crash_at, n_saves, sizeclass)
    if crashed:
        ctx.mark('crashed-mid-save')
    return ctx.done(ok, 'crashed-mid-save')


def _crash(p1, crash_at, n_saves, sizeclass):
    crashed = False
    env = s3env.install()
    store = env.store
    cas = _mk(p1, False, False)
    if sizeclass:
        cas.infrequent_access_threshold = 0.5
    store.crash_after = crash_at
    try:
        for i in range(n_saves):
            rec = cas.create_new_recording('One')
            rec.set_data('k', i)
            rec.add_metadata({'m': i})
            cas.save_recording(rec)
    except fs3.Crash:
        crashed = True
    store.crash_after = None
    reader = _mk(p1, True, False)
    ok = True
    for rid in list(reader.iter_recording_ids('One')):
        full = reader.get_recording(rid)          # NoSuchRecording here = discoverable but not fetchable
        alone = reader.get_recording_metadata(rid)
        ok = ok and full.get_metadata() == alone and len(list(full.get_all_keys())) == 1
    return ok, crashed


_A = ['a', 'b', '/']
_PW = ['', 'a', 'ab', 'a/b', 'metadata', 'a/full']
CONDITIONS = [
    {'fn': 'confined', 'nontrivial': 'transient-cleanup',
     'what': 'two cassettes with symbolic prefixes in one bucket with foreign objects: read-only never mutates; writes '
             'and deletes stay in the own area; transient close removes exactly the own recordings',
     'tiers': {'quick': {'bounds': {'P1': ['', 'a', 'ab'], 'P2': ['', 'a', 'ab'], 'C': 2, 'FOREIGN': ['a/full/x', 'full/z']}, 'timeout': 600,
                         'shards': [{'ro': r, 'tr': t, 'p1': w} for r in (False, True) for t in (False, True) for w in ('', 'a', 'ab')],
                         'witness_shard': {'ro': False, 'tr': True, 'p1': 'a'}},
               'thorough': {'bounds': {'P1': _PW, 'P2': _PW, 'C': 2, 'FOREIGN': ['', 'a/full/x', 'ab/metadata/y', 'full/z', 'a//full/q']}, 'timeout': 8000,
                            'shards': [{'ro': r, 'tr': t, 'p1': w} for r in (False, True) for t in (False, True) for w in _PW],
                            'witness_shard': {'ro': False, 'tr': True, 'p1': 'a'}}}},
    {'fn': 'confined_symbolic', 'nontrivial': 'transient',
     'what': 'prefix / category / foreign key as genuinely symbolic texts (any characters) in a one-save scenario',
     'tiers': {'quick': {'bounds': {'PL': 2, 'FL': 3}, 'timeout': 400, 'shards': [{}]},
               'thorough': {'bounds': {'PL': 3, 'FL': 4}, 'timeout': 3000, 'shards': [{}]}}},
    {'fn': 'crash_during_save', 'nontrivial': 'crashed-mid-save',
     'what': 'crash after each individual bucket mutation of every save: discoverable => completely fetchable',
     'tiers': {'quick': {'bounds': {'P1': ['', 'a'], 'N': 2}, 'timeout': 300, 'shards': [{}]},
               'thorough': {'bounds': {'P1': _PW, 'N': 3}, 'timeout': 3000, 'shards': [{}]}}},
]
