"""C07 - Stored recordings round-trip through every cassette.

Real code executed symbolically: create/save/get/get_recording_metadata of InMemoryTapeCassette,
FileBasedTapeCassette (file name mapping) and S3TapeCassette + S3BasicFacade (full + metadata objects), MemoryRecording.
Symbolic: the TEXTS of the data keys (one up to 10 characters - long enough for the solver to synthesise reserved
names -, one short), the values, a metadata entry, how many other recordings are saved before and after, an unknown
id.  Oracle: fetched id, key set, data under every key and metadata equal what was saved; metadata fetched alone
agrees; an id that was never saved signals NoSuchRecording.
"""
from typing import Optional
from pbsym import ctx, rig as rigm
from pbsym.ctx import B
from pbsym.models.assoc import AssocDict

PROPERTY = 'C07'
TECHNIQUE = 'CrossHair/z3 symbolic execution of save/get on every cassette with symbolic key texts (association-list containers); concrete real-jsonpickle validator on adversarial keys'
FUNCTIONS = ['playback/tape_cassettes/in_memory/in_memory_tape_cassette.py::InMemoryTapeCassette._save_recording',
             'playback/tape_cassettes/in_memory/in_memory_tape_cassette.py::InMemoryTapeCassette.get_recording',
             'playback/tape_cassettes/file_based/file_based_tape_cassette.py::FileBasedTapeCassette._save_recording',
             'playback/tape_cassettes/file_based/file_based_tape_cassette.py::FileBasedTapeCassette.get_recording',
             'playback/tape_cassettes/file_based/file_based_tape_cassette.py::FileBasedTapeCassette._get_recording_file_path',
             'playback/tape_cassettes/s3/s3_tape_cassette.py::S3TapeCassette._save_recording',
             'playback/tape_cassettes/s3/s3_tape_cassette.py::S3TapeCassette.get_recording',
             'playback/tape_cassettes/s3/s3_tape_cassette.py::S3TapeCassette.get_recording_metadata',
             'playback/tape_cassettes/s3/s3_basic_facade.py::S3BasicFacade.put_string',
             'playback/tape_cassettes/s3/s3_basic_facade.py::S3BasicFacade.get_string',
             'playback/tape_cassette.py::TapeCassette.get_recording_metadata',
             'playback/tape_cassette.py::TapeCassette.save_recording',
             'playback/recordings/memory/memory_recording.py::MemoryRecording.get_data',
             'playback/recordings/memory/memory_recording.py::MemoryRecording._set_data']
STUBS = ['jsonpickle -> token model (fidelity of the C-level JSON/zlib code on key texts and value shapes is a contract, '
         'validated on an adversarial key table through the real libraries on every run)',
         'container objects holding symbolic key texts: recording_data / recording_metadata / the in-memory store are '
         'association lists (dict semantics, no hashing)', 'os/io -> in-memory directory; boto3 -> bucket model; uuid/datetime -> models']
ASSUMPTIONS = ['values in the faithful domain; dict semantics of the association-list containers (differentially tested)']
OUTSIDE = ['real jsonpickle/json/zlib on the symbolic key texts (C extension code; covered only by the concrete validator)',
           'more than two data keys / one metadata key per recording; shared sub-objects']


def _map():
    return {} if ctx.REAL else AssocDict()


def _prep(rec):
    if not ctx.REAL:
        rec.recording_data = AssocDict()
        rec.recording_metadata = AssocDict()
    return rec


def roundtrip(k1: str, k2: str, v1: Optional[int], v2: int, mk: str, mv: Optional[int], before: bool, after: bool) -> bool:
    """
    pre: len(k1) <= B('K1') and len(k2) <= B('K2') and len(mk) <= B('K2')
    post: _
    """
    from playback.exceptions import NoSuchRecording
    ctx.begin()
    cas_kind = ctx.S('cassette')
    if ctx.excluded('C07-s3-reserved-metadata-key', cas_kind == 's3' and (k1 == '_metadata' or k2 == '_metadata')):
        return True
    r = rigm.build(cas_kind, spy=False)
    cas = r.cassette
    if cas_kind == 's3' and ctx.S('prefix') is not None:
        from playback.tape_cassettes.s3.s3_tape_cassette import S3TapeCassette
        cas = S3TapeCassette('bkt', key_prefix=ctx.S('prefix'), read_only=False)
    if cas_kind == 'mem' and not ctx.REAL:
        cas._recordings = AssocDict()

    def other(tag):
        o = _prep(cas.create_new_recording('Oth'))
        o.set_data(k1, 999)
        o.set_data('zz', tag)
        o.add_metadata({'m': tag})
        cas.save_recording(o)
        return o.id
    if before:
        other(1)
    rec = _prep(cas.create_new_recording('Cat'))
    want = _map()
    rec.set_data(k1, v1)
    want[k1] = v1
    rec.set_data(k2, v2)
    want[k2] = v2
    wantm = _map()
    rec.add_metadata({mk: mv} if ctx.REAL else AssocDict([(mk, mv)]))
    wantm[mk] = mv
    cas.save_recording(rec)
    if after:
        other(2)
        ctx.mark('other-recordings')
    got = cas.get_recording(rec.id)
    ok = got.id == rec.id
    keys = list(got.get_all_keys())
    ok = ok and len(keys) == len(want) and all(k in want for k in keys)
    for k in list(want.keys()):
        ok = ok and got.get_data(k) == want[k] and got[k] == want[k]
    gm = got.get_metadata()
    ok = ok and len(gm) == len(wantm) and all(gm.get(k) == wantm[k] for k in wantm.keys())
    alone = cas.get_recording_metadata(rec.id)
    ok = ok and len(alone) == len(wantm) and all(alone.get(k) == wantm[k] for k in wantm.keys())
    try:
        res = cas.get_recording('Cat/never-saved')
        ok = False
    except NoSuchRecording:
        pass
    if len(k1) > 0 and len(k2) > 0:
        ctx.mark('two-named-keys')
    return ctx.done(ok, 'two-named-keys')


_SH = [{'cassette': 'mem'}, {'cassette': 'file'}, {'cassette': 's3', 'prefix': 'p'}, {'cassette': 's3', 'prefix': ''}]
CONDITIONS = [
    {'fn': 'roundtrip', 'nontrivial': 'two-named-keys',
     'what': 'save -> get by id with symbolic key texts on every cassette (S3 with and without a key prefix), other '
             'recordings saved before/after',
     'tiers': {'quick': {'bounds': {'K1': 10, 'K2': 2}, 'timeout': 400, 'shards': _SH, 'witness_shard': _SH[2]},
               'thorough': {'bounds': {'K1': 12, 'K2': 4}, 'timeout': 3000,
                            'shards': _SH + [{'cassette': 's3', 'prefix': 'a/metadata'}], 'witness_shard': _SH[2]}}},
]

ADVERSARIAL_KEYS = ['', ' ', 'a"b', "a'b", 'a\\b', 'a/b', '{', '}', '[1]', 'py/object', 'py/id', 'py/tuple', 'json://1',
                    u'é中', '\n', 'a\x00b', '_metadata', 'metadata', 'null', '0', 'input: x args=[], kwargs=[]']


def validate_models():
    """real jsonpickle/zlib/json through the three REAL cassettes on an adversarial key table (stub validation, not the verdict)"""
    import subprocess
    import sys
    import json
    import os
    code = r'''
import sys, json, tempfile, shutil
sys.path.insert(0, %r); sys.path.insert(0, %r)
import logging; logging.disable(logging.CRITICAL)
from pbsym import ctx
ctx.REAL = True
from pbsym import rig as rigm
from harness.C07 import ADVERSARIAL_KEYS
vec = 0; diffs = []
for kind in ('mem', 'file', 's3'):
    r = rigm.build(kind)
    cas = r.cassette
    for k in ADVERSARIAL_KEYS:
        vec += 1
        rec = cas.create_new_recording('Cat')
        shared = [1, 2]
        val = {'n': [1, (2, 3), {'x': None}], 't': (1, 2), 'k': k, 's1': shared, 's2': shared}
        meta = {'mk': k, 'ms1': shared, 'ms2': [shared, shared]}
        rec.set_data(k, val); rec.set_data('plain', 5); rec.set_data('Upper', [shared]); rec.add_metadata(meta)
        cas.save_recording(rec)
        try:
            got = cas.get_recording(rec.id)
            ok = sorted(got.get_all_keys()) == sorted(set([k, 'plain', 'Upper'])) and got.get_data(k) == val and got.get_data('plain') == 5 \
                and got.get_metadata() == meta and cas.get_recording_metadata(rec.id) == meta
        except Exception as ex:
            ok = False
        if not ok and not (kind == 's3' and k == '_metadata') and not k.startswith('py/'):
            # known exclusions: the S3 reserved key (known finding) and jsonpickle's own reserved tags (serializer domain)
            diffs.append((kind, k))
print('@@' + json.dumps({'vectors': vec, 'diffs': diffs}))
''' % (os.environ.get('PB_SRC', '/repo'), os.path.dirname(os.path.dirname(os.path.abspath(__file__))))
    p = subprocess.run([sys.executable, '-c', code], stdout=subprocess.PIPE, stderr=subprocess.PIPE, timeout=300)
    out = p.stdout.decode()
    if '@@' not in out:
        return [{'name': 'real serializer round trip on adversarial keys', 'vectors': 0, 'differences': -1,
                 'error': p.stderr.decode()[-400:]}]
    d = json.loads(out[out.index('@@') + 2:])
    out = {'name': 'real jsonpickle/zlib round trip of adversarial key texts and shared sub-objects through the 3 real cassettes',
           'vectors': d['vectors'], 'differences': len(d['diffs']), 'error': str(d['diffs'])[:300]}
    if d['diffs']:
        out['violation'] = {'cassette_and_key': d['diffs'][:3]}      # a failing real round trip IS a C07 counterexample
    return [out]
