"""C01 - Replay on unchanged code reproduces the recorded run.

Real code executed symbolically: all of tape_recorder.py that a record + replay touches (operation / input / output
decorators, key building, value/exception envelope, lookup, play, _extract_recorded_output), recording.py,
memory_recording.py, pickle_copy.py and the chosen cassette's create/save/get.  Symbolic: the program (list of
opcodes), the environment table (unbounded ints), which environment entries raise, the final outcome, the repeat count.
Oracle (independent journals): while replaying against a *different* live environment no wrapped body runs, every
call site sees what it saw while recording, the operation ends the same way, and recorded and replayed outputs agree
as maps by key, including the operation's own output.
"""
from typing import List
from pbsym import ctx, rig as rigm, script as sc
from pbsym.ctx import B

PROPERTY = 'C01'
TECHNIQUE = 'CrossHair/z3 symbolic execution of the real recorder + cassettes over symbolic programs (opcode lists) and environment values; counterexamples replayed with real jsonpickle'
FUNCTIONS = ['playback/tape_recorder.py::TapeRecorder._operation',
             'playback/tape_recorder.py::TapeRecorder._execute_operation_func',
             'playback/tape_recorder.py::TapeRecorder._intercept_input',
             'playback/tape_recorder.py::TapeRecorder._intercept_output',
             'playback/tape_recorder.py::TapeRecorder._input_interception_key',
             'playback/tape_recorder.py::TapeRecorder._output_interception_key',
             'playback/tape_recorder.py::TapeRecorder._format_alias',
             'playback/tape_recorder.py::TapeRecorder._execute_func_and_record_interception',
             'playback/tape_recorder.py::TapeRecorder._playback_recorded_interception',
             'playback/tape_recorder.py::TapeRecorder._record_output',
             'playback/tape_recorder.py::TapeRecorder.start_recording',
             'playback/tape_recorder.py::TapeRecorder.play',
             'playback/tape_recorder.py::TapeRecorder._extract_recorded_output',
             'playback/recordings/memory/memory_recording.py::MemoryRecording.get_data',
             'playback/utils/pickle_copy.py::pickle_copy',
             'playback/tape_cassettes/in_memory/in_memory_tape_cassette.py::InMemoryTapeCassette.get_recording',
             'playback/tape_cassettes/file_based/file_based_tape_cassette.py::FileBasedTapeCassette.get_recording',
             'playback/tape_cassettes/file_based/file_based_tape_cassette.py::FileBasedTapeCassette._save_recording',
             'playback/tape_cassettes/s3/s3_tape_cassette.py::S3TapeCassette.get_recording',
             'playback/tape_cassettes/s3/s3_tape_cassette.py::S3TapeCassette._save_recording']
STUBS = ['jsonpickle encode/decode -> token model (deep copy contract); key text -> injective canonical text (kenc)',
         'time/uuid -> model clock and ids', 'file cassette: os/io -> in-memory directory', 'S3: boto3 bucket model, '
         'zlib -> blob, datetime -> integer timeline']
ASSUMPTIONS = ['an input is a function of its alias and captured arguments (property proviso; built into the environment table)',
               'values are in the serializer\'s faithful domain: jsonpickle fidelity is a contract (token model), not executed',
               'intercepted objects are not mutated after capture']
OUTSIDE = ['programs longer than the stated bound L; call arguments outside {0,1}; value shapes other than ints (and '
           'exceptions); real jsonpickle/zlib fidelity; worker threads inside the operation']
EXPLANATION = 'record a symbolic program, replay it against a different live environment, compare independent journals'


def _norm(v):
    if isinstance(v, BaseException):
        return ('exception', type(v).__name__)
    if isinstance(v, dict):
        return sorted(((k, _norm(x)) for k, x in v.items()), key=lambda kv: kv[0])
    if isinstance(v, (list, tuple)):
        return [_norm(x) for x in v]
    return v


def _script_from_shard(script):
    first = ctx.S('first', -1)
    if first is None:
        return []
    if first >= 0:
        return [first] + list(script)
    return list(script)


def roundtrip(script: List[int], vals: List[int], exc: List[bool], final: int, rep: int) -> bool:
    """
    pre: len(script) <= B('L') - 1 and all(s in B('TAIL') for s in script)
    pre: len(vals) == 8 and len(exc) == B('NEXC')
    pre: 0 <= final <= 1 and 0 <= rep <= B('REP')
    post: _
    """
    from playback.exceptions import OperationExceptionDuringPlayback
    ctx.begin()
    script = _script_from_shard(script)
    exc = list(exc) + [False] * (8 - len(exc))
    r = rigm.build(ctx.S('cassette', 'mem'), spy=True)
    tr = r.tr
    plan = sc.Plan(script, vals, exc, final, rep)
    run1 = sc.Run(tr)
    Svc1 = sc.make_service(tr, plan, run1)
    out1 = sc.execute(Svc1, plan, run1)
    rid = rigm.last_saved_id(r)
    if rid is None:
        return ctx.done(False)
    # replay: same program, different live environment (bodies must not run; if they did values would differ)
    plan2 = sc.Plan(script, vals, exc, final, rep)
    plan2.shift = 1000
    run2 = sc.Run(tr)
    Svc2 = sc.make_service(tr, plan2, run2)

    def playback_function(recording):
        out = sc.execute(Svc2, plan2, run2)
        if out[0] == 'exc':
            raise out[1]
        return out[1]
    pb = tr.play(rid, playback_function)
    out2 = run2.result
    ok = run2.journal == []
    ok = ok and sc.same_sitelog(run1.sitelog, run2.sitelog)
    if out1[0] == 'ret':
        ok = ok and out2[0] == 'ret' and out2[1] == out1[1]
    else:
        ok = ok and isinstance(out1[1], sc.Boom) and out2[0] == 'exc' and isinstance(out2[1], OperationExceptionDuringPlayback)
    rec_map = [(k, _norm(v)) for k, v in sc.outputs_as_map(pb.recorded_outputs)]
    pb_map = [(k, _norm(v)) for k, v in sc.outputs_as_map(pb.playback_outputs)]
    ok = ok and rec_map == pb_map
    opkey = 'output: _tape_recorder_operation #1.output'
    want = ('exception', 'Boom') if out1[0] == 'exc' else out1[1]
    ok = ok and any(k == opkey and v == [('args', [want]), ('kwargs', [])] for k, v in pb_map)
    ok = ok and len(pb_map) == 1 + len(run1.sent)
    if len(run1.sitelog) >= 2:
        ctx.mark('two-calls')
    if any(e[1] == 'exc' for e in run1.sitelog):
        ctx.mark('replayed-exception')
    return ctx.done(ok, 'two-calls')


def _shards(spec):
    out = []
    for c, firsts in spec:
        for f in firsts:
            out.append({'cassette': c, 'first': f})
    return out


_ALL = list(range(sc.NOPS))
_o = sc.op_of
# quick: every first opcode on the in-memory cassette, a representative subset on file/S3 (the cassette-specific code
# does not depend on the program shape); tails over a subset of opcodes.  thorough: everything, L = 3, repeat <= 12.
_QTAIL = [_o('A', 1), _o('D', 1), _o('H'), _o('N'), _o('M', 1), _o('O', 1), _o('U')]
_TTAIL = [_o('A', 0), _o('A', 1), _o('B', 1), _o('S', 1), _o('P'), _o('R', 1), _o('C', 1), _o('D', 0), _o('D', 1), _o('H'), _o('N'), _o('M', 0), _o('M', 1),
          _o('O', 1), _o('T'), _o('U')]
_QSUB = [None, _o('A', 1), _o('D', 1), _o('H'), _o('M', 1), _o('O', 1), _o('U'), _o('X', 1)]
_W = {'cassette': 'mem', 'first': _o('A', 1)}
CONDITIONS = [
    {'fn': 'roundtrip', 'nontrivial': 'two-calls',
     'what': 'record -> save -> fetch -> replay of a symbolic program on each cassette; sharded by (cassette, first opcode)',
     'tiers': {
         'quick': {'bounds': {'L': 2, 'TAIL': _QTAIL, 'REP': 1, 'NEXC': 2}, 'timeout': 400, 'witness_timeout': 120,
                   'shards': _shards([('mem', [None] + _ALL), ('file', _QSUB), ('s3', _QSUB)]), 'witness_shard': _W},
         'thorough': {'bounds': {'L': 3, 'TAIL': [_o('A', 1), _o('D', 1), _o('O', 1), _o('U')], 'REP': 12, 'NEXC': 2}, 'timeout': 6000, 'witness_timeout': 120,
                      'shards': _shards([('mem', [None] + _ALL)]) +
                      [dict(x, **{'b.L': 2, 'b.TAIL': _QTAIL}) for x in _shards([('file', [None] + _ALL), ('s3', [None] + _ALL)])],
                      'witness_shard': _W}}},
]
