"""C14 - Metadata filter matching is total and means what is documented.

Real code executed symbolically: TapeCassette.match_against_recorded_metadata / _match_metadata_value /
_operator_filter and the S3 content-filter closure.  Symbolic: the filter tree (atoms None/bool/int/str, operator
objects with *symbolic operator text*, lists of two alternatives, dict atoms) and the recorded value (absent/None/
bool/int/str/dict).  Oracle: a reference matcher written from the documentation; the call must not raise.
"""
from typing import Union, List, Optional
from pbsym import ctx
from pbsym.ctx import B

import playback.tape_cassette as tc
from playback.tape_cassette import TapeCassette

PROPERTY = 'C14'
TECHNIQUE = 'CrossHair/z3 symbolic execution of the real matcher over symbolic filter and value trees (Union types, symbolic operator text) against a reference matcher'
FUNCTIONS = ['playback/tape_cassette.py::TapeCassette.match_against_recorded_metadata',
             'playback/tape_cassette.py::TapeCassette._match_metadata_value',
             'playback/tape_cassette.py::TapeCassette._operator_filter',
             'playback/tape_cassettes/s3/s3_tape_cassette.py::S3TapeCassette._create_content_filter_func']
STUBS = ['fnmatch.fnmatch -> uninterpreted but consistent boolean function of (name, pattern) that raises TypeError '
         'on a non-str name exactly like the real one (os.fspath boundary is not symbolically executable)',
         'json.loads in the S3 content filter -> returns the metadata mapping it stands for']
ASSUMPTIONS = ['semantics of shell patterns themselves (stdlib fnmatch) are trusted',
               'CrossHair models of int/str/bool/Union and z3 are the trusted base']
OUTSIDE = ['floats as filter or metadata numbers (CrossHair floats are real-based; ints are unbounded here)',
           'lists of more than 2 alternatives; nested lists deeper than 1',
           'operator objects whose value is None/bool/dict (only int and str operands are decided)']
EXPLANATION = ('Every path of the real matcher over symbolic filter/value trees is explored; the result must equal a '
               'reference matcher and no exception may escape.')

Atom = Union[None, bool, int, str]
_real_fnmatch = tc.fnmatch


class FnModel(object):
    """uninterpreted-but-consistent fnmatch: answers come from symbolic booleans, same (name, pattern) -> same answer"""

    def __init__(self, answers):
        self.answers = answers
        self.table = []
        self.calls = []

    def __call__(self, name, pat):
        self.calls.append((name, pat))
        if not isinstance(name, (str, bytes)):
            raise TypeError('expected str, bytes or os.PathLike object, not %s' % type(name).__name__)
        for n, p, r in self.table:
            if type(n) is type(name) and n == name and p == pat:
                return r
        r = self.answers[len(self.table)] if len(self.table) < len(self.answers) else False
        self.table.append((name, pat, r))
        return r


def _install(answers):
    if ctx.REAL:
        tc.fnmatch = _real_fnmatch
        return _real_fnmatch
    fm = FnModel(answers)
    tc.fnmatch = fm
    return fm


def _comparable(a, b):
    na = isinstance(a, (int, bool))
    nb = isinstance(b, (int, bool))
    if na and nb:
        return True
    return isinstance(a, str) and isinstance(b, str)


def ref_match(f, m, fn):
    """reference matcher from the documentation; m is None when the key is absent"""
    if isinstance(f, list):
        for alt in f:
            if ref_match(alt, m, fn):
                return True
        return False
    if isinstance(f, dict) and 'operator' in f and 'value' in f:
        op, v = f['operator'], f['value']
        if m is None or not _comparable(m, v):
            return False if op != '=' else (m is not None and m == v)
        if op == '=':
            return m == v
        if op == '<':
            return m < v
        if op == '<=':
            return m <= v
        if op == '>':
            return m > v
        if op == '>=':
            return m >= v
        return False
    if m is None:
        return f is None
    if isinstance(f, str):
        return isinstance(m, str) and bool(fn(m, f))
    return m == f


# ------------------------------------------------------------------------------------------------ conditions

def atom_vs_value(f: Atom, m: Atom, fr: bool) -> bool:
    """
    pre: (not isinstance(f, str) or len(f) <= B('S')) and (not isinstance(m, str) or len(m) <= B('S'))
    post: _
    """
    ctx.begin()
    if ctx.excluded('C14-pattern-vs-nonstring', isinstance(f, str) and m is not None and not isinstance(m, str)):
        return True
    fn = _install([fr])
    if isinstance(f, str) and isinstance(m, str):
        ctx.mark('pattern')
    got = TapeCassette._match_metadata_value(f, m)
    want = ref_match(f, m, fn)
    return ctx.done(isinstance(got, bool) and got == want, 'pattern')


def operator_vs_value(op: str, v: Union[int, str], m: Atom) -> bool:
    """
    pre: len(op) <= 2 and (not isinstance(v, str) or len(v) <= B('S')) and (not isinstance(m, str) or len(m) <= B('S'))
    post: _
    """
    ctx.begin()
    if ctx.excluded('C14-operator-vs-incomparable', op in ('<', '<=', '>', '>=') and (m is None or not _comparable(m, v))):
        return True
    fn = _install([])
    if op in ('<', '<=', '>', '>=', '=') and m is not None and _comparable(m, v):
        ctx.mark('compare')
    got = TapeCassette._match_metadata_value({'operator': op, 'value': v}, m)
    want = ref_match({'operator': op, 'value': v}, m, fn)
    return ctx.done(isinstance(got, bool) and got == want, 'compare')


KINDS = ['N', 'B', 'I', 'S']


def V(kind, b, i, s):
    """a value of the shard's concrete kind built from symbolic leaves"""
    if kind == 'N':
        return None
    if kind == 'B':
        return b
    if kind == 'I':
        return i
    if kind == 'S':
        return s
    raise AssertionError(kind)


def _alt(kind, b, i, s, op):
    """an alternative of a list filter: atom of kind N/B/I/S, or operator object with int (OI) / str (OS) operand"""
    if kind == 'OI':
        return {'operator': op, 'value': i}
    if kind == 'OS':
        return {'operator': op, 'value': s}
    return V(kind, b, i, s)


def list_filter(b1: bool, i1: int, s1: str, op1: str, b2: bool, i2: int, s2: str, op2: str,
                bm: bool, im: int, sm: str, fr1: bool, fr2: bool) -> bool:
    """
    pre: len(op1) <= 2 and len(op2) <= 2 and len(s1) <= B('S') and len(s2) <= B('S') and len(sm) <= B('S')
    post: _
    """
    ctx.begin()
    alts = [_alt(ctx.S('k1'), b1, i1, s1, op1), _alt(ctx.S('k2'), b2, i2, s2, op2)]
    m = V(ctx.S('km'), bm, im, sm)
    for alt in alts:
        if isinstance(alt, dict):
            if ctx.excluded('C14-operator-vs-incomparable',
                            alt['operator'] in ('<', '<=', '>', '>=') and (m is None or not _comparable(m, alt['value']))):
                return True
        elif ctx.excluded('C14-pattern-vs-nonstring', isinstance(alt, str) and m is not None and not isinstance(m, str)):
            return True
    fn = _install([fr1, fr2])
    got = TapeCassette._match_metadata_value(alts, m)
    want = ref_match(alts, m, fn)
    if want and not ref_match(alts[0], m, fn):
        ctx.mark('second-alternative')
    return ctx.done(isinstance(got, bool) and got == want, 'second-alternative')


def dict_atom(i: int, j: int, same_key: bool, m_absent: bool) -> bool:
    """
    post: _
    """
    ctx.begin()
    fn = _install([])
    f = {'x': i}
    m = None if m_absent else ({'x': j} if same_key else {'y': j})
    if not m_absent and same_key:
        ctx.mark('dict-eq')
    got = TapeCassette._match_metadata_value(f, m)
    want = (not m_absent) and same_key and i == j
    return ctx.done(isinstance(got, bool) and got == want, 'dict-eq')


def whole_filter(has_a: bool, has_b: bool, ba: bool, ia: int, sa: str, fb: int, ma_present: bool, mb_present: bool,
                 bma: bool, ima: int, sma: str, mb: int, fr1: bool, via_s3: bool) -> bool:
    """
    pre: len(sa) <= B('S') and len(sma) <= B('S')
    post: _
    """
    ctx.begin()
    fa = V(ctx.S('kf'), ba, ia, sa)
    ma = V(ctx.S('km'), bma, ima, sma)
    if ctx.excluded('C14-pattern-vs-nonstring',
                    isinstance(fa, str) and ma_present and ma is not None and not isinstance(ma, str)):
        return True
    fn = _install([fr1])
    flt = {}
    if has_a:
        flt['a'] = fa
    if has_b:
        flt['b'] = fb
    meta = {'other': 1}
    if ma_present:
        meta['a'] = ma
    if mb_present:
        meta['b'] = mb
    if via_s3:
        import playback.tape_cassettes.s3.s3_tape_cassette as s3m
        from playback.tape_cassettes.s3.s3_tape_cassette import S3TapeCassette
        if not ctx.REAL:
            s3m.json = type('J', (), {'loads': staticmethod(lambda s: meta)})
            arg = 'token'
        else:
            import json
            s3m.json = json
            arg = json.dumps(meta)
        got = S3TapeCassette._create_content_filter_func(flt)(arg)
    else:
        got = TapeCassette.match_against_recorded_metadata(flt, meta)
    want = True
    if has_a:
        want = want and ref_match(fa, ma if ma_present else None, fn)
    if has_b:
        want = want and ref_match(fb, mb if mb_present else None, fn)
    if has_a and has_b:
        ctx.mark('conjunction')
    return ctx.done(isinstance(got, bool) and got == want, 'conjunction')


def _t(bounds, timeout, shards=None, wshard=None):
    t = {'bounds': bounds, 'timeout': timeout, 'shards': shards or [{}], 'witness_timeout': 60}
    if wshard:
        t['witness_shard'] = wshard
    return t


_ALTK = KINDS + ['OI', 'OS']
_LSH = [{'k1': a, 'k2': b, 'km': m} for a in _ALTK for b in _ALTK for m in KINDS]
_WSH = [{'kf': f, 'km': m} for f in KINDS for m in KINDS]


CONDITIONS = [
    {'fn': 'atom_vs_value', 'nontrivial': 'pattern', 'what': 'atom filter vs recorded value: equality / pattern / None rule, never raises',
     'tiers': {'quick': _t({'S': 2}, 150), 'thorough': _t({'S': 3}, 600)}},
    {'fn': 'operator_vs_value', 'nontrivial': 'compare', 'what': 'operator object with symbolic operator text vs any recorded value',
     'tiers': {'quick': _t({'S': 2}, 150), 'thorough': _t({'S': 3}, 600)}},
    {'fn': 'list_filter', 'nontrivial': 'second-alternative', 'what': 'list of two alternatives (atoms / operator objects): any-of; sharded by the kinds of both alternatives and of the recorded value',
     'tiers': {'quick': _t({'S': 1}, 200, _LSH, {'k1': 'I', 'k2': 'OI', 'km': 'I'}), 'thorough': _t({'S': 2}, 900, _LSH, {'k1': 'I', 'k2': 'OI', 'km': 'I'})}},
    {'fn': 'dict_atom', 'nontrivial': 'dict-eq', 'what': 'dict atom (no operator/value keys) matches by equality',
     'tiers': {'quick': _t({}, 60), 'thorough': _t({}, 120)}},
    {'fn': 'whole_filter', 'nontrivial': 'conjunction', 'what': 'per-key conjunction, absent key = None; same through the S3 content-filter closure',
     'tiers': {'quick': _t({'S': 1}, 200, _WSH), 'thorough': _t({'S': 3}, 900, _WSH)}},
]


def validate_models():
    """fnmatch model vs the real fnmatch: TypeError on non-str names, consistency on repeated calls"""
    import fnmatch
    vectors = 0
    diffs = 0
    for name in [5, None, True, {'a': 1}, object, 3.5, [1]]:
        vectors += 1
        try:
            fnmatch.fnmatch(name, 'a*')
            real = 'ok'
        except TypeError:
            real = 'TypeError'
        try:
            FnModel([True])(name, 'a*')
            model = 'ok'
        except TypeError:
            model = 'TypeError'
        diffs += (real != model)
    for name, pat in [('abc', 'a*'), ('abc', 'b*'), ('', ''), ('a', '?'), ('[', '[')]:
        vectors += 1
        if fnmatch.fnmatch(name, pat) != fnmatch.fnmatch(name, pat):
            diffs += 1
    out = [{'name': 'fnmatch model vs stdlib (TypeError boundary, determinism)', 'vectors': vectors, 'differences': diffs}]
    out += _s3_content_filter_validator()
    return out


def _s3_content_filter_validator():
    """the S3 content filter works on the SERIALIZED metadata text (real jsonpickle + json; C-level code the solver does
    not see): for values that JSON escapes (non-ASCII, quotes, backslashes, newlines) the real filter function must give
    the matcher's verdict on the same metadata.  A mismatch is a concrete C14 counterexample on the real code."""
    import jsonpickle
    from playback.tape_cassettes.s3.s3_tape_cassette import S3TapeCassette
    import playback.tape_cassettes.s3.s3_tape_cassette as s3m
    import json as _json
    s3m.json = _json
    vec = 0
    bad = []
    values = [u'Z\u00fcrich', 'a"b', 'x\\y', 'line\nbreak', 'plain', u'\u4e2d', 'tab\there', '', 'a/b', 5, None, True]
    for v in values:
        meta = {'city': v, 'other': [1, 2]}
        text = jsonpickle.encode(meta, unpicklable=True)
        for flt in ({'city': v}, {'city': [v, 'nope']}, {'city': 'no-such'}, {'other': [[1, 2]]}, {'city': {'operator': '=', 'value': v}}):
            vec += 1
            want = TapeCassette.match_against_recorded_metadata(flt, meta)
            try:
                got = S3TapeCassette._create_content_filter_func(flt)(text)
            except Exception as ex:
                got = 'raised %r' % (ex,)
            if got != want:
                bad.append({'metadata': repr(meta), 'filter': repr(flt), 'filter_function': repr(got), 'matcher': want})
    res = {'name': 'real S3 content filter on serialized metadata with JSON-escaped values agrees with the matcher',
           'vectors': vec, 'differences': len(bad), 'error': str(bad[:2])[:300]}
    if bad:
        res['violation'] = bad[0]
    return [res]
