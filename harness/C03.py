"""C03 - Captured outputs are exactly what the executing code sent.

Real code executed symbolically: _intercept_output (per-alias ordinal), _record_output (instance stripped, kwargs kept,
data handler), _output_interception_key, _execute_operation_func (implicit operation output), play() and
_extract_recorded_output.  Symbolic: the recorded program P, the behavioural edit that turns it into the replayed
program P' (drop / add an output / swap / change an argument / change the final outcome, at a symbolic position), the
sent values (accumulated from symbolic environment values), the number of repeated calls (ordinals >= 10).
Oracle: from the *call-site journal* (alias, args, kwargs logged just before each output call): recorded outputs must
equal the expectation for P and replayed outputs the expectation for P', entry by entry, plus the operation entry.
"""
from typing import List
from pbsym import ctx, rig as rigm, script as sc
from pbsym.ctx import B

PROPERTY = 'C03'
TECHNIQUE = 'CrossHair/z3 symbolic execution of output capture over symbolic programs and edits; oracle from an independent call-site journal; concrete real-jsonpickle validator for repeated instances'
FUNCTIONS = ['playback/tape_recorder.py::TapeRecorder._intercept_output',
             'playback/tape_recorder.py::TapeRecorder._record_output',
             'playback/tape_recorder.py::TapeRecorder._output_interception_key',
             'playback/tape_recorder.py::TapeRecorder._execute_operation_func',
             'playback/tape_recorder.py::TapeRecorder._serializable_exception_form',
             'playback/tape_recorder.py::TapeRecorder._extract_recorded_output',
             'playback/tape_recorder.py::TapeRecorder.play',
             'playback/tape_recorder.py::TapeRecorder._reset_active_recording']
STUBS = ['jsonpickle encode/decode -> token model; time/uuid -> models; in-memory cassette is the real one']
ASSUMPTIONS = ['values in the faithful domain (serializer contract)']
OUTSIDE = ['outputs issued concurrently from several threads (per-alias counter is unsynchronised; not in the quantifier)',
           'programs longer than the bound; more than 12 calls per alias']

OPKEY = 'output: _tape_recorder_operation #1.output'


def _norm(v):
    if isinstance(v, BaseException):
        return ('exception', type(v).__name__)
    if isinstance(v, dict):
        return sorted(((k, _norm(x)) for k, x in v.items()), key=lambda kv: kv[0])
    if isinstance(v, (list, tuple)):
        return [_norm(x) for x in v]
    return v


def expected_outputs(sent, outcome):
    """expectation from the call-site journal: one entry per output call, keyed by alias and per-alias ordinal"""
    count = {}
    out = []
    for alias, args, kwargs in sent:
        count[alias] = count.get(alias, 0) + 1
        key = 'output: %s #%d.output' % (alias, count[alias])
        if alias == 'u':
            val = [('handled', list(args))]
        else:
            val = [('args', list(args)), ('kwargs', sorted(kwargs.items()))]
        out.append((key, val))
    if outcome[0] == 'ret':
        out.append((OPKEY, [('args', [outcome[1]]), ('kwargs', [])]))
    else:
        out.append((OPKEY, [('args', [('exception', type(outcome[1]).__name__)]), ('kwargs', [])]))
    return sorted(out, key=lambda kv: kv[0])


def _as_map(outputs):
    return [(k, _norm(v)) for k, v in sc.outputs_as_map(outputs)]


def _edit(script, kind, pos):
    """P -> P' : 0 none, 1 drop op at pos, 2 add o(.,k=1) at pos, 3 swap pos/pos+1, 4 flip the argument of op at pos"""
    s = list(script)
    n = len(s)
    if kind == 1 and n > 0:
        p = pos % n
        return s[:p] + s[p + 1:]
    if kind == 2:
        p = pos % (n + 1)
        return s[:p] + [sc.op_of('O', 1)] + s[p:]
    if kind == 3 and n > 1:
        p = pos % (n - 1)
        s[p], s[p + 1] = s[p + 1], s[p]
        return s
    if kind == 4 and n > 0:
        p = pos % n
        s[p] = s[p] ^ 1 if sc.KINDS[s[p] // 2] in sc.OUTPUT_KINDS else s[p]
        return s
    return s


def _record_and_replay(script, script2, vals, final, final2, rep):
    from playback.exceptions import OperationExceptionDuringPlayback, RecordingKeyError
    r = rigm.build('mem', spy=True)
    tr = r.tr
    plan = sc.Plan(script, vals, None, final, rep)
    plan.lenient_outputs = True
    run1 = sc.Run(tr)
    out1 = sc.execute(sc.make_service(tr, plan, run1), plan, run1)
    rid = rigm.last_saved_id(r)
    if rid is None:
        return None
    plan2 = sc.Plan(script2, vals, None, final2, rep)
    plan2.lenient_outputs = True
    plan2.shift = 1000
    run2 = sc.Run(tr)
    Svc2 = sc.make_service(tr, plan2, run2)

    def pf(recording):
        out = sc.execute(Svc2, plan2, run2)
        if out[0] == 'exc':
            raise out[1]
    try:
        pb = tr.play(rid, pf)
    except RecordingKeyError:
        return 'missing-input'
    out2 = run2.result
    if out2[0] == 'exc' and isinstance(out2[1], OperationExceptionDuringPlayback):
        out2 = ('exc', sc.Boom())
    ok = _as_map(pb.recorded_outputs) == expected_outputs(run1.sent, out1)
    ok = ok and _as_map(pb.playback_outputs) == expected_outputs(run2.sent, out2)
    return ok, run1, run2


def _ltail():
    first = ctx.S('first', -1)
    if first is None:
        return 0
    return B('L') - (1 if first >= 0 else 0)


def edits(script: List[int], vals: List[int], final: int, final2: int, kind: int, pos: int) -> bool:
    """
    pre: len(script) <= _ltail() and all(s in B('OPS') for s in script)
    pre: len(vals) == 8 and 0 <= final <= 1 and 0 <= final2 <= 1 and 0 <= pos <= B('L')
    post: _
    """
    ctx.begin()
    script = [ctx.pick(x, B('OPS')) for x in script]
    first = ctx.S('first', -1)
    if first is not None and first >= 0:
        script = [first] + script
    kind = ctx.S('kind')
    pos = ctx.pick(pos, range(B('L') + 1))
    script2 = _edit(script, kind, pos)
    res = _record_and_replay(script, script2, vals, final, final2, 0)
    if res is None:
        return ctx.done(False)
    if res == 'missing-input':
        return ctx.done(True)
    ok, run1, run2 = res
    if run1.sent != [] and (script2 != script or final != final2):
        ctx.mark('edited-program-with-outputs')
    return ctx.done(ok, 'edited-program-with-outputs')


def ordinals(rep: int, arg: int, extra: int, vals: List[int], rep2: int) -> bool:
    """
    pre: 0 <= rep2 <= B('REP') and 0 <= arg <= 1 and len(vals) == 8 and extra in B('EXTRA')
    post: _
    """
    rep = ctx.S('rep')
    # many calls of one alias (ordinals beyond 9), optionally interleaved with another output alias; replay sends
    # a different number of calls
    ctx.begin()
    arg = ctx.pick(arg, (0, 1))
    rep2 = ctx.pick(rep2, range(B('REP') + 1))
    extra = ctx.pick(extra, B('EXTRA'))
    from playback.exceptions import OperationExceptionDuringPlayback
    r = rigm.build('mem', spy=True)
    tr = r.tr
    script = [sc.op_of('A', 1), sc.op_of('X', arg)] + ([extra] if extra >= 0 else [])
    plan = sc.Plan(script, vals, None, 0, rep)
    plan.lenient_outputs = True
    run1 = sc.Run(tr)
    out1 = sc.execute(sc.make_service(tr, plan, run1), plan, run1)
    rid = rigm.last_saved_id(r)
    if rid is None:
        return ctx.done(False)
    plan2 = sc.Plan(script, vals, None, 0, rep2)
    plan2.lenient_outputs = True
    run2 = sc.Run(tr)
    Svc2 = sc.make_service(tr, plan2, run2)
    pb = tr.play(rid, lambda recording: sc.execute(Svc2, plan2, run2))
    ok = _as_map(pb.recorded_outputs) == expected_outputs(run1.sent, out1)
    ok = ok and _as_map(pb.playback_outputs) == expected_outputs(run2.sent, run2.result)
    if rep >= 10:
        ctx.mark('tenth-call')
    return ctx.done(ok, 'tenth-call')


_o = sc.op_of
_QOPS = [_o('A', 1), _o('O', 0), _o('O', 1), _o('T'), _o('U')]
_TOPS = [_o('A', 1), _o('H'), _o('N'), _o('O', 0), _o('O', 1), _o('T'), _o('U')]
CONDITIONS = [
    {'fn': 'edits', 'nontrivial': 'edited-program-with-outputs',
     'what': 'recorded program P, replayed program P\' = behavioural edit of P; outputs of both runs vs the call-site journal',
     'tiers': {'quick': {'bounds': {'L': 2, 'OPS': _QOPS}, 'timeout': 400,
                         'shards': [{'kind': k, 'first': f} for k in range(5) for f in [None] + _QOPS],
                         'witness_shard': {'kind': 2, 'first': _o('O', 0)}},
               'thorough': {'bounds': {'L': 3, 'OPS': _QOPS}, 'timeout': 6000,
                            'shards': [{'kind': k, 'first': f} for k in range(5) for f in [None] + _QOPS],
                            'witness_shard': {'kind': 2, 'first': _o('O', 0)}}}},
    {'fn': 'ordinals', 'nontrivial': 'tenth-call',
     'what': 'up to 12 calls of one output alias (ordinals >= 10), replay with a different count',
     'tiers': {'quick': {'bounds': {'REP': 11, 'EXTRA': [-1, _o('T')]}, 'timeout': 400,
                         'shards': [{'rep': n} for n in (0, 1, 9, 10, 11)], 'witness_shard': {'rep': 10}},
               'thorough': {'bounds': {'REP': 12, 'EXTRA': [-1, _o('T'), _o('O', 0), _o('U')]}, 'timeout': 3000,
                            'shards': [{'rep': n} for n in range(13)], 'witness_shard': {'rep': 10}}}},
]


VALIDATOR = r'''
import sys, json, tempfile, shutil
sys.path.insert(0, %r); sys.path.insert(0, %r)
import logging; logging.disable(logging.CRITICAL)
from playback.tape_recorder import TapeRecorder
from playback.tape_cassettes.in_memory.in_memory_tape_cassette import InMemoryTapeCassette
from playback.tape_cassettes.file_based.file_based_tape_cassette import FileBasedTapeCassette

class Point(object):
    def __init__(self, x): self.x = x
    def __eq__(self, o): return isinstance(o, Point) and o.x == self.x
    def __hash__(self): return 1

bad = []; vec = 0
d = tempfile.mkdtemp(prefix='pbsym-c03v-')
try:
    for name, cas in (('mem', InMemoryTapeCassette()), ('file', FileBasedTapeCassette(d))):
        tr = TapeRecorder(cas); tr.enable_recording()
        class Svc(object):
            @tr.operation()
            def execute(self):
                p = Point(3); lst = [1, 2]
                self.notify(p, p, both=(lst, lst))
                self.notify(Point(4), [p, p], both={'a': lst, 'b': lst})
                return p
            @tr.intercept_output('notify')
            def notify(self, a, b, both=None): return None
        Svc().execute()
        rid = cas.get_last_recording_id() if name == 'mem' else list(cas.iter_recording_ids('Svc'))[0]
        pb = tr.play(rid, lambda rec: Svc().execute())
        for outs, label in ((pb.recorded_outputs, 'recorded'), (pb.playback_outputs, 'replayed')):
            m = dict((o.key, o.value) for o in outs)
            vec += 1
            v1 = m.get('output: notify #1.output'); v2 = m.get('output: notify #2.output')
            ok = (v1 is not None and v1['args'] == [Point(3), Point(3)] and [list(x) for x in v1['kwargs']['both']] == [[1, 2], [1, 2]]
                  and v2 is not None and v2['args'] == [Point(4), [Point(3), Point(3)]] and v2['kwargs']['both'] == {'a': [1, 2], 'b': [1, 2]})
            if not ok: bad.append([name, label, repr(v1)[:120]])
finally:
    shutil.rmtree(d, ignore_errors=True)
print('@@' + json.dumps({'vectors': vec, 'bad': bad}))
'''


def validate_models():
    """serializer fidelity on outputs that hold the SAME instance twice (outside what the token model can see): a real
    record -> replay with the real jsonpickle on the in-memory and file cassettes; a mismatch is a concrete C03
    counterexample on the real code"""
    import subprocess
    import sys
    import json
    import os
    code = VALIDATOR % (os.environ.get('PB_SRC', '/repo'), os.path.dirname(os.path.dirname(os.path.abspath(__file__))))
    p = subprocess.run([sys.executable, '-c', code], stdout=subprocess.PIPE, stderr=subprocess.PIPE, timeout=300)
    out = p.stdout.decode()
    if '@@' not in out:
        return [{'name': 'real record/replay of outputs holding one instance twice', 'vectors': 0, 'differences': -1,
                 'error': p.stderr.decode()[-400:]}]
    d = json.loads(out[out.index('@@') + 2:])
    res = {'name': 'real jsonpickle: outputs holding the same instance twice are recorded and handed out intact',
           'vectors': d['vectors'], 'differences': len(d['bad']), 'error': str(d['bad'])[:300]}
    if d['bad']:
        res['violation'] = {'cassette_runs': d['bad'][:2]}
    return [res]
