"""C09 - The recorder returns to idle; every run is independent of history.

Real code executed symbolically: all state-resetting code of tape_recorder.py - start_recording's finally-block,
discard_recording, _reset_active_recording, force_sample_recording, play()'s finally-block, the interception context
manager - driven through the public decorators.  Symbolic: a history of run descriptors (operation ok / raising /
interrupted inside or outside an intercepted body / discarded / capture fault / sampled out / forced / forced then
discarded / force or discard requested while idle; replay ok / of a missing id / failing with a missing key after an
output was sent / playback function raising / key-creation error / operation raising / interrupted), the environment
values.  Oracle: after every run the recorder is idle (not recording, not replaying, no current id, force flag clear,
in-interception flag clear), and the probe runs (a replay, a rate-0 operation, a rate-1 operation, a replay, and a
rate-1 operation directly after that replay) give the same
cassette events, the same recorded content and the same Playback as on a FRESH recorder.
"""
from typing import List
from pbsym import ctx, rig as rigm, script as sc
from pbsym.ctx import B
from pbsym.models.quiet import num

PROPERTY = 'C09'
TECHNIQUE = 'CrossHair/z3 symbolic execution over symbolic run histories on one recorder; probe runs compared with a fresh recorder'
FUNCTIONS = ['playback/tape_recorder.py::TapeRecorder.start_recording',
             'playback/tape_recorder.py::TapeRecorder.discard_recording',
             'playback/tape_recorder.py::TapeRecorder.force_sample_recording',
             'playback/tape_recorder.py::TapeRecorder._reset_active_recording',
             'playback/tape_recorder.py::TapeRecorder.play',
             'playback/tape_recorder.py::TapeRecorder._enter_interception_context',
             'playback/tape_recorder.py::TapeRecorder._execute_func_and_record_interception',
             'playback/tape_recorder.py::TapeRecorder._intercept_input',
             'playback/tape_recorder.py::TapeRecorder._intercept_output',
             'playback/tape_recorder.py::TapeRecorder._record_output',
             'playback/tape_recorder.py::TapeRecorder._operation']
STUBS = ['jsonpickle -> token model; time/uuid/random -> models; spy around the real in-memory cassette']
ASSUMPTIONS = ['single thread: "every thread" is covered for the thread that ran the history']
OUTSIDE = ['histories longer than the bound', 'histories whose runs use worker threads']

HIST = ['op_ok', 'op_raises', 'op_interrupt_in_body', 'op_interrupt_between', 'op_discarded', 'op_capture_fault',
        'op_sampled_out', 'op_forced', 'op_forced_then_discarded', 'idle_force', 'idle_discard',
        'replay_ok', 'replay_missing_id', 'replay_missing_key_after_output', 'replay_function_raises',
        'replay_key_creation_error', 'replay_operation_raises', 'replay_interrupt_in_body', 'op_output_interrupt_in_body',
        'op_output_then_discard', 'op_output_then_capture_fault']

_o = sc.op_of
P0 = [_o('A', 1), _o('O', 1)]
P_OUT_FIRST = [_o('O', 1), _o('A', 1)]


def _idle(tr):
    return (not tr.in_recording_mode and not tr.in_playback_mode and tr.current_recording_id is None
            and not tr.is_recording_sample_forced and not tr._currently_in_interception)


def _run_op(tr, vals, script, params=None, **kw):
    plan = sc.Plan(script, vals)
    for k, v in kw.items():
        setattr(plan, k, v)
    run = sc.Run(tr)
    out = sc.execute(sc.make_service(tr, plan, run, params=params), plan, run)
    return out, run


def _replay(tr, rid, vals, script, **kw):
    plan = sc.Plan(script, vals)
    plan.shift = 1000
    raise_after = kw.pop('raise_after', False)
    for k, v in kw.items():
        setattr(plan, k, v)
    run = sc.Run(tr)
    Svc = sc.make_service(tr, plan, run)

    def pf(recording):
        out = sc.execute(Svc, plan, run)
        if out[0] == 'exc':
            raise out[1]
        if raise_after:
            raise sc.Boom2('playback function')
    try:
        return ('ok', tr.play(rid, pf), run)
    except (Exception, sc.Interrupt) as ex:
        return ('exc', ex, run)


def _history_step(kind, tr, base_id, vals, den):
    if kind == 'op_ok':
        _run_op(tr, vals, P0)
    elif kind == 'op_raises':
        _run_op(tr, vals, P0, final=1)
    elif kind == 'op_interrupt_in_body':
        _run_op(tr, vals, P0, term_at=0, term_kind=2, term_in_body=True)
    elif kind == 'op_output_interrupt_in_body':
        _run_op(tr, vals, P_OUT_FIRST, term_at=0, term_kind=2, term_in_body=True)
    elif kind == 'op_interrupt_between':
        _run_op(tr, vals, P0, term_at=1, term_kind=2, term_in_body=False)
    elif kind == 'op_discarded':
        _run_op(tr, vals, P0, faults=[('discard_op', 1)])
    elif kind == 'op_output_then_discard':
        _run_op(tr, vals, P_OUT_FIRST, faults=[('discard_op', 1)])
    elif kind == 'op_output_then_capture_fault':
        _run_op(tr, vals, P_OUT_FIRST, faults=[('key_arg', 1)])
    elif kind == 'op_capture_fault':
        _run_op(tr, vals, P0, faults=[('key_arg', 0)])
    elif kind == 'op_sampled_out':
        _run_op(tr, vals, P0, params={'sampling_rate': num(0, den)})
    elif kind == 'op_forced':
        _run_op(tr, vals, P0, faults=[('force_op', 0)])
    elif kind == 'op_forced_then_discarded':
        _run_op(tr, vals, P0, faults=[('force_op', 0), ('discard_op', 1)])
    elif kind == 'idle_force':
        tr.force_sample_recording()
    elif kind == 'idle_discard':
        tr.discard_recording()
    elif kind == 'replay_ok':
        _replay(tr, base_id, vals, P0)
    elif kind == 'replay_missing_id':
        _replay(tr, 'Svc/never-saved', vals, P0)
    elif kind == 'replay_missing_key_after_output':
        _replay(tr, base_id, vals, [_o('A', 1), _o('O', 1), _o('B', 0)])
    elif kind == 'replay_function_raises':
        _replay(tr, base_id, vals, P0, raise_after=True)
    elif kind == 'replay_key_creation_error':
        _replay(tr, base_id, vals, P0, faults=[('key_arg', 0)])
    elif kind == 'replay_operation_raises':
        _replay(tr, base_id, vals, P0, final=1)
    elif kind == 'replay_interrupt_in_body':
        # only bodies that really run during replay can be interrupted: the operation body between steps
        _replay(tr, base_id, vals, P0, term_at=1, term_kind=2, term_in_body=False)
    else:
        raise AssertionError(kind)


def _content(rec):
    return sorted(((k, rec.get_data_direct(k)) for k in rec.get_all_keys()), key=lambda kv: kv[0])


def _norm(v):
    if isinstance(v, BaseException):
        return ('exception', type(v).__name__)
    if isinstance(v, dict):
        return sorted(((k, _norm(x)) for k, x in v.items()), key=lambda kv: kv[0])
    if isinstance(v, (list, tuple)):
        return [_norm(x) for x in v]
    return v


def _probe(tr, rig, base_id, vals, den):
    """three probe runs; returns an id-free summary"""
    from playback.tape_recorder import TapeRecorder
    spy = rig.cassette
    # a replay first: nothing may have run in between that could reset per-run state on the recorder's behalf
    res0 = _replay(tr, base_id, vals, P0)
    if res0[0] == 'ok':
        rp0 = ('ok', [(k, _norm(v)) for k, v in sc.outputs_as_map(res0[1].playback_outputs)], res0[2].journal,
               [e[:3] for e in res0[2].sitelog])
    else:
        rp0 = ('exc', type(res0[1]).__name__)
    n0 = len(spy.log)
    _run_op(tr, vals, [_o('A', 1), _o('O', 1), _o('O', 0)], params={'sampling_rate': num(0, den)})
    ev_a = [e for e, _ in spy.log[n0:] if e != 'get']
    n1 = len(spy.log)
    out_b, run_b = _run_op(tr, vals, [_o('O', 1), _o('A', 1), _o('O', 1), _o('T')])
    ev_b = [e for e, _ in spy.log[n1:] if e != 'get']
    saved = [r for e, r in spy.log[n1:] if e == 'save']
    content = None
    if saved:
        content = [(k, _norm(v)) for k, v in _content(rig.inner.get_recording(saved[0]))]
    res = _replay(tr, base_id, vals, P0)
    if res[0] == 'ok':
        pb = res[1]
        rp = ('ok', [(k, _norm(v)) for k, v in sc.outputs_as_map(pb.playback_outputs)],
              [(k, _norm(v)) for k, v in sc.outputs_as_map(pb.recorded_outputs)], res[2].journal)
    else:
        rp = ('exc', type(res[1]).__name__)
    # a recording directly after a replay (no sampled-out run in between whose finaliser would restart the per-alias
    # numbering on the replay's behalf - seed C09-F): its stored content must be a fresh recorder's
    n2 = len(spy.log)
    _run_op(tr, vals, [_o('O', 1), _o('A', 1), _o('O', 1), _o('T')])      # same program as run b above
    saved2 = [r for e, r in spy.log[n2:] if e == 'save']
    content2 = None
    if saved2:
        content2 = [(k, _norm(v)) for k, v in _content(rig.inner.get_recording(saved2[0]))]
    # absolute, not only differential (a fresh recorder's probe performs the same replay): same program, same values
    # => same stored content as run b, which followed a finalised recording
    return [ev_a, ev_b, content, rp, _idle(tr), rp0, content2, content2 == content]


def history_independent(hist: List[int], vals: List[int]) -> bool:
    """
    pre: len(hist) <= _lh() and all(0 <= h < len(B('KINDS')) for h in hist)
    pre: len(vals) == 8
    post: _
    """
    from playback.tape_recorder import TapeRecorder
    ctx.begin()
    kinds = B('KINDS')
    hist = [kinds[ctx.pick(h, range(len(kinds)))] for h in hist]
    first = ctx.S('first', -1)
    if first is not None and first >= 0:
        hist = [kinds[first]] + hist
    den = 2
    r = rigm.build('mem', spy=True, draws=[1, 1, 1, 1, 1, 1, 1, 1], den=den)      # every draw is 1/2
    tr = r.tr
    # a baseline recording to replay
    _run_op(tr, vals, P0)
    base_id = rigm.last_saved_id(r)
    ok = base_id is not None and _idle(tr)
    for kind in hist:
        _history_step(kind, tr, base_id, vals, den)
        ok = ok and _idle(tr)
        ctx.mark('history')
    got = _probe(tr, r, base_id, vals, den)
    fresh = TapeRecorder(r.cassette, random_seed=None)
    fresh.enable_recording()
    want = _probe(fresh, r, base_id, vals, den)
    ok = ok and got == want and want[0] == ['create', 'abort'] and want[1] == ['create', 'save'] and want[4] and want[7]
    return ctx.done(ok, 'history')


def _lh():
    first = ctx.S('first', -1)
    if first is None:
        return 0
    return B('H') - (1 if first >= 0 else 0)


_ALLK = HIST
# histories of three runs over the kinds that leave something behind if mishandled
_SUBK = ['op_interrupt_in_body', 'op_output_then_discard', 'op_forced_then_discarded', 'idle_force', 'replay_missing_key_after_output',
         'replay_function_raises', 'replay_key_creation_error', 'op_sampled_out', 'op_output_then_capture_fault', 'replay_ok']
CONDITIONS = [
    {'fn': 'history_independent', 'nontrivial': 'history',
     'what': 'recorder idle after every run of a symbolic history; probe operation / replay equal to a fresh recorder\'s; '
             'sharded by the first run of the history',
     'tiers': {'quick': {'bounds': {'H': 2, 'KINDS': _ALLK}, 'timeout': 500,
                         'shards': [{'first': None}] + [{'first': i} for i in range(len(_ALLK))],
                         'witness_shard': {'first': 1}},
               'thorough': {'bounds': {'H': 2, 'KINDS': _ALLK}, 'timeout': 6000,
                            'shards': [{'first': None}] + [{'first': i} for i in range(len(_ALLK))] +
                                      [{'first': i, 'b.H': 3, 'b.KINDS': _SUBK} for i in range(len(_SUBK))],
                            'witness_shard': {'first': 1}}}},
]
