"""Import hook: loads `playback.*` from PB_SRC's current source with logging call statements removed.

Formatting log messages is not the subject of any property, but under CrossHair every `'…'.format(…)` goes through a
pure-Python formatter (10 ms a call, ~30 % of all path time) and formatting a symbolic number realises it.  So - for
the symbolic runs only - expression statements of the form `_logger.<level>(…)` / `logging.<level>(…)` are replaced
by `pass` in memory (the guidance's "formatting and logging get empty bodies").  The encoding is regenerated from the
working tree on every import; replays on the real code do NOT use this hook."""
import ast
import importlib.abc
import importlib.util
import os
import sys

LEVELS = ('debug', 'info', 'warning', 'warn', 'error', 'exception', 'critical', 'log')
STRIPPED = [0]


class _Strip(ast.NodeTransformer):
    def visit_Expr(self, node):
        v = node.value
        if isinstance(v, ast.Call) and isinstance(v.func, ast.Attribute) and v.func.attr in LEVELS \
                and isinstance(v.func.value, ast.Name) and v.func.value.id in ('_logger', 'logging', 'logger'):
            STRIPPED[0] += 1
            return ast.copy_location(ast.Pass(), node)
        return node


class _Loader(importlib.abc.SourceLoader):
    def __init__(self, path):
        self.path = path

    def get_filename(self, fullname):
        return self.path

    def get_data(self, path):
        with open(path, 'rb') as f:
            return f.read()

    def source_to_code(self, data, path, *a, **k):
        tree = ast.parse(data, path)
        tree = _Strip().visit(tree)
        ast.fix_missing_locations(tree)
        return compile(tree, path, 'exec', dont_inherit=True)

    def get_code(self, fullname):                      # never use / write .pyc for transformed code
        return self.source_to_code(self.get_data(self.path), self.path)

    def exec_module(self, module):
        super(_Loader, self).exec_module(module)
        # remember the module-level containers as they are right after import: ctx.begin() puts them back at the
        # start of every symbolic path (one path = one fresh process), see ctx._reset_module_state
        from pbsym import ctx
        ctx.remember_module_state(module)


class _Finder(importlib.abc.MetaPathFinder):
    def __init__(self, root):
        self.root = root

    def find_spec(self, fullname, path, target=None):
        if fullname != 'playback' and not fullname.startswith('playback.'):
            return None
        rel = fullname.replace('.', '/')
        pkg = os.path.join(self.root, rel, '__init__.py')
        mod = os.path.join(self.root, rel + '.py')
        if os.path.isfile(pkg):
            return importlib.util.spec_from_file_location(fullname, pkg, loader=_Loader(pkg),
                                                          submodule_search_locations=[os.path.dirname(pkg)])
        if os.path.isfile(mod):
            return importlib.util.spec_from_file_location(fullname, mod, loader=_Loader(mod))
        return None


def install(root):
    assert not any(m == 'playback' or m.startswith('playback.') for m in sys.modules), 'install before importing playback'
    sys.meta_path.insert(0, _Finder(root))
