"""Builds a real TapeRecorder on a real cassette surrounded by the environment models (or, when replaying a
counterexample with ctx.REAL, by the real libraries: jsonpickle, a temp directory, zlib, parse, datetime)."""
import atexit
import shutil
import tempfile

from pbsym import ctx
from pbsym.models import serializer, quiet, fs as fsm


class Rig(object):
    pass


def _model_shuffle(lst):
    """random order -> one fixed non-identity permutation (CrossHair would otherwise treat the RNG as an unbounded
    source of nondeterminism); the properties only speak about the SET of results under random listing"""
    lst.reverse()


class _ModelRandom(object):
    @staticmethod
    def choice(seq):
        return seq[len(seq) - 1]


def build(cassette='mem', spy=False, fail_save=False, seed=None, draws=None, den=1, size=None):
    import playback.tape_recorder as trmod
    import playback.recording as recmod
    from playback.tape_recorder import TapeRecorder
    rig = Rig()
    rig.stubs = []
    ids = quiet.Ids()
    if not ctx.REAL:
        serializer.reset()
        serializer.install()
        trmod.time = quiet.Clock()
        recmod.uuid = ids
        rig.stubs += serializer.INSTALLED + ['time.time -> model clock', 'uuid -> fresh distinct ids']
    if draws is not None:
        rig.rand = quiet.RandomFactory(draws, den)
        trmod.Random = rig.rand
    if cassette == 'mem':
        import playback.tape_cassettes.in_memory.in_memory_tape_cassette as m
        if not ctx.REAL:
            m.uuid = ids
            m.shuffle = _model_shuffle
        cas = m.InMemoryTapeCassette()
    elif cassette == 'file':
        import playback.tape_cassettes.file_based.file_based_tape_cassette as m
        if not ctx.REAL:
            m.uuid = ids
            rig.fs = fsm.install_file_cassette()
            rig.stubs.append('os/io in file_based_tape_cassette -> flat in-memory directory')
            cas = m.FileBasedTapeCassette('/cassette')
        else:
            d = tempfile.mkdtemp(prefix='pbsym-replay-')
            atexit.register(shutil.rmtree, d, True)
            cas = m.FileBasedTapeCassette(d)
    elif cassette == 's3':
        from pbsym.models import s3env
        env = s3env.install(ids=ids, size=size)
        if not ctx.REAL:
            env.fac.shuffle = _model_shuffle
            env.s3m.random = _ModelRandom
        rig.s3 = env
        rig.stubs += env.stubs
        from playback.tape_cassettes.s3.s3_tape_cassette import S3TapeCassette
        cas = S3TapeCassette('bkt', key_prefix='pfx', read_only=False)
    elif cassette == 'none':
        cas = None
    else:
        raise AssertionError(cassette)
    rig.inner = cas
    if spy:
        from pbsym.models.spy import SpyCassette
        cas = SpyCassette(inner=cas, fail_save=fail_save)
    rig.cassette = cas
    rig.tr = TapeRecorder(cas, random_seed=seed)
    rig.tr.enable_recording()
    return rig


def last_saved_id(rig):
    """id of the most recently saved recording according to the spy log / the in-memory cassette"""
    cas = rig.cassette
    if hasattr(cas, 'log'):
        ids = [r for e, r in cas.log if e == 'save']
        return ids[-1] if ids else None
    return cas.get_last_recording_id()
