"""Runs ONE condition shard under CrossHair (symbolic execution + z3) and prints a JSON verdict on the last line.

usage: python -m pbsym.worker <harness module> <condition name> <json: {"shard":…, "bounds":…, "mode":…, "timeout":…, "excluded":[…]}>

mode = "check"    : decide the condition (post must hold on every path within the bounds)
mode = "witness"  : reachability twin - the post is negated on paths that hit the harness' non-trivial tag, so a
                    returned counterexample is a concrete witness that the mechanism is exercised (vacuity guard)
The playback package is imported from PB_SRC (default /repo) - the current working tree, never a copy.
"""
import json
import os
import re
import ast
import sys
import time
import importlib

SRC = os.environ.get('PB_SRC', '/repo')
sys.path.insert(0, SRC)
sys.path.insert(0, os.path.dirname(os.path.dirname(os.path.abspath(__file__))))

import logging  # noqa: E402
logging.disable(logging.CRITICAL)

from pbsym import ctx, loader  # noqa: E402
loader.install(SRC)


def parse_invocation(message, fname):
    """extract {param: literal} from CrossHair's '… when calling f(a=1, b='x') …' message"""
    i = message.find('when calling ' + fname + '(')
    if i < 0:
        return None
    s = message[i + len('when calling '):]
    depth = 0
    instr = None
    esc = False
    end = None
    for j, ch in enumerate(s):
        if instr:
            if esc:
                esc = False
            elif ch == '\\':
                esc = True
            elif ch == instr:
                instr = None
            continue
        if ch in '\'"':
            instr = ch
        elif ch in '([{':
            depth += 1
        elif ch in ')]}':
            depth -= 1
            if depth == 0:
                end = j + 1
                break
    if end is None:
        return None
    try:
        call = ast.parse(s[:end], mode='eval').body
        out = {}
        for kw in call.keywords:
            out[kw.arg] = ast.literal_eval(kw.value)
        sig_names = None
        if call.args:
            import inspect
            sig_names = list(inspect.signature(ctx.CURRENT_FN).parameters)
            for n, a in zip(sig_names, call.args):
                out[n] = ast.literal_eval(a)
        return out
    except Exception as ex:  # unparsable (non-literal repr) -> caller treats as inconclusive
        return {'__unparsed__': s[:end], '__error__': repr(ex)}


def _fast_format():
    """CrossHair routes every str.format through a pure-Python formatter (about 10 ms a call under tracing).  When the
    template and all arguments are plain concrete ints/strs/bools/None the native formatter gives the identical
    result, so use it; anything symbolic still takes CrossHair's path."""
    import crosshair.core as core
    from crosshair.tracers import NoTracing
    orig = core._PATCH_REGISTRATIONS.get(str.format)
    if orig is None:
        return
    plain = (int, str, bool, type(None))

    def fast(self, /, *a, **kw):
        with NoTracing():
            if type(self) is str and all(type(x) in plain for x in a) and all(type(x) in plain for x in kw.values()):
                return str.format(self, *a, **kw)
        return orig(self, *a, **kw)
    core._PATCH_REGISTRATIONS[str.format] = fast


def main():
    modname, condname, spec = sys.argv[1], sys.argv[2], json.loads(sys.argv[3])
    ctx.SHARD = spec.get('shard') or {}
    ctx.BOUNDS = spec.get('bounds') or {}
    ctx.MODE = spec.get('mode', 'check')
    ctx.EXCLUDED = set(spec.get('excluded') or [])
    ctx.WITNESS_TAG = spec.get('witness_tag')
    timeout = float(spec.get('timeout', 60))

    import z3
    stats = {'queries': 0, 'solver_s': 0.0, 'paths': 0}
    orig_check = z3.Solver.check

    def counting(self, *a):
        t = time.perf_counter()
        try:
            return orig_check(self, *a)
        finally:
            stats['queries'] += 1
            stats['solver_s'] += time.perf_counter() - t
    z3.Solver.check = counting

    import crosshair.statespace as ss
    orig_bubble = ss.StateSpace.bubble_status

    def bubble(self, analysis):
        stats['paths'] += 1
        return orig_bubble(self, analysis)
    ss.StateSpace.bubble_status = bubble

    from crosshair.core_and_libs import analyze_function, run_checkables, MessageType
    from crosshair.options import AnalysisOptionSet

    _fast_format()
    mod = importlib.import_module(modname)
    fn = getattr(mod, condname)
    ctx.CURRENT_FN = fn
    opts = AnalysisOptionSet(per_condition_timeout=timeout, per_path_timeout=max(timeout, 30.0),
                             max_uninteresting_iterations=sys.maxsize, report_all=True)
    t0 = time.time()
    msgs = list(run_checkables(analyze_function(fn, opts)))
    wall = time.time() - t0
    out = {'condition': condname, 'shard': ctx.SHARD, 'mode': ctx.MODE, 'paths': stats['paths'],
           'queries': stats['queries'], 'solver_s': round(stats['solver_s'], 3), 'wall_s': round(wall, 3),
           'completed_paths': ctx.COMPLETED[0], 'nontrivial_paths': ctx.NONTRIVIAL[0],
           'tags': dict(ctx.TAGCOUNT)}
    if not msgs:
        out.update(state='inconclusive', message='crosshair produced no message')
    else:
        # one post-condition per function by construction; take the worst message
        order = {MessageType.CONFIRMED: 0, MessageType.CANNOT_CONFIRM: 2, MessageType.PRE_UNSAT: 2,
                 MessageType.POST_ERR: 3, MessageType.EXEC_ERR: 3, MessageType.POST_FAIL: 3,
                 MessageType.SYNTAX_ERR: 4, MessageType.IMPORT_ERR: 4}
        m = max(msgs, key=lambda x: order.get(x.state, 2))
        out['crosshair_state'] = m.state.name
        out['message'] = m.message[:2000]
        if m.state == MessageType.CONFIRMED:
            out['state'] = 'confirmed'
        elif m.state in (MessageType.POST_FAIL, MessageType.EXEC_ERR, MessageType.POST_ERR):
            args = parse_invocation(m.message, condname)
            if args is None or '__unparsed__' in args:
                out['state'] = 'inconclusive'
                out['message'] = 'counterexample could not be parsed back: ' + m.message[:1500]
            else:
                out['state'] = 'counterexample'
                out['args'] = args
        else:
            out['state'] = 'inconclusive'
    print('\n@@RESULT@@' + json.dumps(out, default=repr))


if __name__ == '__main__':
    main()
