"""E2: rewrite real playback source (read from PB_SRC on every run) into cooperative generators so that a schedule
can be chosen step by step by an oracle whose decisions are solver variables.

Every function (except __dunder__ and functions that already yield) becomes a generator:
  * a scheduling point (``yield``) is placed before every simple statement and at every loop head,
  * ``self.X.m(...)`` is split into ``t = self.X ; yield ; t.m(...)`` (attribute load and call are separate steps),
  * every call ``f(a)`` becomes ``(yield from _coop_call(f, a))`` which delegates into other rewritten functions,
  * ``with L:`` on a model lock becomes acquire (blocking = yielding BLOCKED) / try / finally release,
  * lambdas become nested rewritten defs.
"""
import ast
import sys
import types

POINT = 'POINT'


class Blocked(object):
    def __init__(self, ready):
        self.ready = ready


def _coop_gen_of(genfn):
    """decorator for model primitives: the function *is* its generator twin"""
    def plain(*a, **k):
        raise RuntimeError('blocking primitive called outside cooperative code: %s' % genfn.__name__)
    plain._coop_gen = genfn
    plain.__name__ = genfn.__name__
    return plain


_coop_mark = _coop_gen_of


def _coop_attach(plain, gen):
    plain._coop_gen = gen
    return plain


def _coop_call(f, *a, **k):
    target = getattr(f, '__func__', f)
    gen = getattr(target, '_coop_gen', None)
    if gen is not None:
        if hasattr(f, '__self__'):
            return (yield from gen(f.__self__, *a, **k))
        return (yield from gen(*a, **k))
    return f(*a, **k)


class CoopLock(object):
    def __init__(self):
        self.owner = None

    def coop_acquire(self):
        while self.owner is not None:
            yield Blocked(lambda: self.owner is None)
        self.owner = SCHED.current
        return True

    def release(self):
        assert self.owner is not None
        self.owner = None

    # used by code that runs atomically (not rewritten: dunders, user-supplied bodies calling into the framework)
    def __enter__(self):
        if self.owner is not None:
            raise RuntimeError('an atomic section would have to block on a model lock')
        self.owner = SCHED.current if SCHED else 'atomic'
        return self

    def __exit__(self, *a):
        self.owner = None
        return False


def _coop_with_enter(cm):
    if isinstance(cm, CoopLock):
        yield from cm.coop_acquire()
        return None
    return cm.__enter__()


def _coop_with_exit(cm, et, ev, tb):
    if isinstance(cm, CoopLock):
        cm.release()
        return False
    return cm.__exit__(et, ev, tb)


class CoopEvent(object):
    def __init__(self):
        self.flag = False

    def set(self):
        self.flag = True

    def clear(self):
        self.flag = False

    def is_set(self):
        return self.flag

    @_coop_mark
    def wait(self, timeout=None):
        # returns when the flag is set or when the (nondeterministic) timer fires
        if not self.flag:
            if timeout is not None and SCHED.timer_fires():
                yield POINT          # the timer expired first
            else:
                yield Blocked(lambda: self.flag)
        return self.flag


class CoopThread(object):
    def __init__(self, target=None, name=None, args=(), kwargs=None):
        self.target = target
        self.name = name
        self.task = None

    def setDaemon(self, v):
        pass

    def start(self):
        if self.task is not None:
            raise RuntimeError('threads can only be started once')
        self.task = SCHED.spawn(_coop_call(self.target), self.name)

    @_coop_mark
    def join(self, timeout=None):
        if self.task is None:
            raise RuntimeError('cannot join thread before it is started')
        while not self.task.done:
            yield Blocked(lambda: self.task.done)


class Task(object):
    def __init__(self, gen, name):
        self.gen = gen
        self.name = name
        self.done = False
        self.waiting = None
        self.error = None

    @property
    def runnable(self):
        return not self.done and (self.waiting is None or self.waiting())


class Scheduler(object):
    """Runs tasks one step at a time. ``oracle`` supplies preemption points, forced-switch choices and timer firings."""

    def __init__(self, oracle):
        self.tasks = []
        self.current = None
        self.oracle = oracle
        self.steps = 0
        self.trace = []
        self.on_step = None

    def spawn(self, gen, name):
        t = Task(gen, name)
        self.tasks.append(t)
        return t

    def timer_fires(self):
        return self.oracle.timer_fires()

    def run(self, max_steps=2000):
        cur = 0
        while True:
            if all(t.done for t in self.tasks):
                return 'done'
            ready = [i for i, t in enumerate(self.tasks) if t.runnable]
            if not ready:
                return 'deadlock'
            if self.steps >= max_steps:
                return 'bound'
            if cur not in ready:
                # forced switch (current finished or blocked): which ready task continues is a choice
                cur = ready[self.oracle.forced_choice(len(ready))] if len(ready) > 1 else ready[0]
            elif len(ready) > 1 and self.oracle.preempt_here(self.steps):
                cands = [i for i in ready if i != cur]
                cur = cands[self.oracle.preempt_target(len(cands))] if len(cands) > 1 else cands[0]
            t = self.tasks[cur]
            self.current = t
            self.steps += 1
            if self.on_step is not None:
                self.on_step(self, t)
            t.waiting = None
            try:
                r = next(t.gen)
                if isinstance(r, Blocked):
                    t.waiting = r.ready
            except StopIteration:
                t.done = True
            except Exception as ex:  # task died with an exception
                t.done = True
                t.error = ex
            self.trace.append(cur)


SCHED = None


def set_scheduler(s):
    global SCHED
    SCHED = s


class _Rewriter(ast.NodeTransformer):
    def __init__(self):
        self.n = 0

    def fresh(self, p):
        self.n += 1
        return '_coop_%s%d' % (p, self.n)

    # ---- functions
    def fn(self, node):
        """returns [original def, generator twin def, attach statement]"""
        if node.name.startswith('__') and node.name.endswith('__'):
            return [node]  # constructors / dunders stay atomic
        if any(isinstance(n, (ast.Yield, ast.YieldFrom)) for n in ast.walk(node)):
            return [node]  # generator-based context managers stay atomic
        if any(not (isinstance(d, ast.Name) and d.id in ('staticmethod', 'classmethod')) for d in node.decorator_list):
            return [node]  # properties, setters, abstract methods, other decorated functions stay atomic
        import copy
        twin = copy.deepcopy(node)
        node.body = self.nested_only(node.body)   # closures created on the atomic path still get twins
        twin.name = '_coop_gen_' + node.name
        twin.decorator_list = [d for d in twin.decorator_list
                               if not (isinstance(d, ast.Name) and d.id in ('staticmethod', 'classmethod'))]
        twin.body = self.block(twin.body)
        attach = ast.parse('_coop_attach(%s, %s)' % (node.name, twin.name)).body[0]
        if any(isinstance(d, ast.Name) and d.id == 'staticmethod' for d in node.decorator_list):
            attach = ast.parse('_coop_attach(%s.__func__, %s)' % (node.name, twin.name)).body[0]
        return [node, twin, attach]

    def visit_Lambda(self, node):
        raise AssertionError('lambdas are lifted by stmt()')

    def nested_only(self, stmts):
        out = []
        for st in stmts:
            if isinstance(st, ast.FunctionDef):
                out.extend(self.fn(st))
                continue
            for f in ('body', 'orelse', 'finalbody'):
                if isinstance(getattr(st, f, None), list) and getattr(st, f) and isinstance(getattr(st, f)[0], ast.stmt):
                    setattr(st, f, self.nested_only(getattr(st, f)))
            for h in getattr(st, 'handlers', []) or []:
                h.body = self.nested_only(h.body)
            out.append(st)
        return out

    def block(self, stmts):
        out = []
        for s in stmts:
            out.extend(self.stmt(s))
        return out or [ast.Pass()]

    def point(self):
        return ast.Expr(ast.Yield(ast.Constant(POINT)))

    def stmt(self, s):
        pre = []
        if isinstance(s, (ast.FunctionDef,)):
            return self.fn(s)
        if isinstance(s, ast.ClassDef):
            body = []
            for b in s.body:
                body.extend(self.fn(b) if isinstance(b, ast.FunctionDef) else [b])
            s.body = body
            return [s]
        if isinstance(s, (ast.Expr, ast.Assign, ast.AugAssign, ast.Return, ast.Raise, ast.Assert, ast.Delete)):
            if isinstance(s, ast.Expr) and isinstance(s.value, ast.Constant):
                return [s]  # docstring
            s = self.lift(s, pre, hoist=True)
            return pre + [self.point(), s]
        if isinstance(s, ast.If):
            s.test = self.lift_expr(s.test, pre, hoist=True)
            s.body = self.block(s.body)
            s.orelse = self.block(s.orelse) if s.orelse else []
            return pre + [self.point(), s]
        if isinstance(s, ast.While):
            s.test = self.lift_expr(s.test, pre, hoist=False)
            s.body = [self.point()] + self.block(s.body)
            s.orelse = self.block(s.orelse) if s.orelse else []
            return pre + [s]
        if isinstance(s, ast.For):
            s.iter = self.lift_expr(s.iter, pre, hoist=True)
            s.body = [self.point()] + self.block(s.body)
            s.orelse = self.block(s.orelse) if s.orelse else []
            return pre + [self.point(), s]
        if isinstance(s, ast.Try):
            s.body = self.block(s.body)
            for h in s.handlers:
                h.body = self.block(h.body)
            s.orelse = self.block(s.orelse) if s.orelse else []
            s.finalbody = self.block(s.finalbody) if s.finalbody else []
            return [s]
        if isinstance(s, ast.With):
            assert len(s.items) == 1, 'single-item with only'
            item = s.items[0]
            cm = self.fresh('cm')
            ctx = self.lift_expr(item.context_expr, pre, hoist=True)
            enter = ast.parse('%s_v = (yield from _coop_with_enter(%s))' % (cm, cm)).body[0]
            body = self.block(s.body)
            if item.optional_vars is not None:
                body = [ast.Assign([item.optional_vars], ast.Name(cm + '_v', ast.Load()))] + body
            tmpl = ast.parse(
                'try:\n    pass\nexcept BaseException:\n'
                '    if not _coop_with_exit(%s, *_coop_sys.exc_info()):\n        raise\n'
                'else:\n    _coop_with_exit(%s, None, None, None)\n' % (cm, cm)).body[0]
            tmpl.body = body
            return pre + [self.point(), ast.Assign([ast.Name(cm, ast.Store())], ctx), enter, tmpl]
        if isinstance(s, (ast.Pass, ast.Break, ast.Continue, ast.Import, ast.ImportFrom, ast.Global, ast.Nonlocal)):
            return [s]
        raise NotImplementedError(type(s).__name__)

    # ---- expressions
    def lift(self, s, pre, hoist):
        for f, v in ast.iter_fields(s):
            if isinstance(v, ast.expr):
                setattr(s, f, self.lift_expr(v, pre, hoist))
            elif isinstance(v, list):
                setattr(s, f, [self.lift_expr(x, pre, hoist) if isinstance(x, ast.expr) else x for x in v])
        return s

    def lift_expr(self, e, pre, hoist):
        rw = self

        class E(ast.NodeTransformer):
            def visit_Lambda(self, node):
                import copy
                name = rw.fresh('lam')
                plain = ast.Assign([ast.Name(name, ast.Store())], copy.deepcopy(node))
                body_pre = []
                body = rw.lift_expr(node.body, body_pre, hoist=True)
                fd = ast.FunctionDef(name=name + '_gen', args=node.args,
                                     body=body_pre + [rw.point(), ast.Return(body)],
                                     decorator_list=[], returns=None, type_comment=None, type_params=[])
                pre.append(plain)
                pre.append(fd)
                pre.append(ast.parse('_coop_attach(%s, %s_gen)' % (name, name)).body[0])
                return ast.Name(name, ast.Load())

            def visit_ListComp(self, node):
                return node  # own scope: left atomic

            visit_SetComp = visit_DictComp = visit_GeneratorExp = visit_ListComp

            def visit_Call(self, node):
                node = self.generic_visit(node)
                f = node.func
                if hoist and isinstance(f, ast.Attribute) and isinstance(f.value, ast.Attribute) \
                        and isinstance(f.value.value, ast.Name) and f.value.value.id == 'self':
                    tmp = rw.fresh('ld')
                    pre.append(rw.point())
                    pre.append(ast.Assign([ast.Name(tmp, ast.Store())], f.value))
                    f = ast.Attribute(ast.Name(tmp, ast.Load()), f.attr, ast.Load())
                return ast.YieldFrom(ast.Call(ast.Name('_coop_call', ast.Load()), [f] + node.args, node.keywords))

        return E().visit(e)


def coop_import(module_name, path, replacements=None):
    """Load ``path`` as module ``module_name`` with every function rewritten; install it in sys.modules."""
    src = open(path).read()
    tree = ast.parse(src, path)
    rw = _Rewriter()
    body = []
    for st in tree.body:
        body.extend(rw.stmt(st) if isinstance(st, (ast.FunctionDef, ast.ClassDef)) else [st])
    tree.body = body
    ast.fix_missing_locations(tree)
    mod = types.ModuleType(module_name)
    mod.__file__ = path
    mod.__dict__.update(_coop_attach=_coop_attach, _coop_call=_coop_call, _coop_with_enter=_coop_with_enter,
                        _coop_with_exit=_coop_with_exit, _coop_sys=sys)
    sys.modules[module_name] = mod
    code = compile(tree, path, 'exec')
    exec(code, mod.__dict__)
    for k, v in (replacements or {}).items():
        setattr(mod, k, v)
    return mod
