"""Replays ONE counterexample (or known-finding witness) concretely, without CrossHair, against the real code with
stubs removed wherever a real counterpart exists (ctx.REAL = True).  Prints a JSON verdict on the last line.

The harness may define `replay_<condition>(args, shard, bounds) -> (violated, detail)`; otherwise the condition
function itself is called concretely: a False result or an escaping exception is a reproduced violation."""
import os
import sys
import json
import importlib
import traceback

SRC = os.environ.get('PB_SRC', '/repo')
sys.path.insert(0, SRC)
sys.path.insert(0, os.path.dirname(os.path.dirname(os.path.abspath(__file__))))

import logging  # noqa: E402
logging.disable(logging.CRITICAL)
from pbsym import ctx  # noqa: E402


def main():
    modname, cond, spec = sys.argv[1], sys.argv[2], json.loads(sys.argv[3])
    ctx.SHARD = spec.get('shard') or {}
    ctx.BOUNDS = spec.get('bounds') or {}
    ctx.MODE = 'replay'
    ctx.REAL = True
    mod = importlib.import_module(modname)
    args = spec['args']
    out = {}
    try:
        custom = getattr(mod, 'replay_' + cond, None)
        if custom is not None:
            violated, detail = custom(args, ctx.SHARD, ctx.BOUNDS)
        else:
            fn = getattr(mod, cond)
            try:
                r = fn(**args)
                violated, detail = (not r), 'oracle returned %r on the real code' % (r,)
            except Exception as ex:
                violated, detail = True, 'escaped: %s: %s | %s' % (type(ex).__name__, ex,
                                                                   traceback.format_exc().strip().splitlines()[-3:])
        out = {'violated': bool(violated), 'detail': str(detail)[:1500]}
    except BaseException as ex:  # the replay itself broke: not a reproduction
        out = {'violated': False, 'detail': 'replay harness error: %r %s' % (ex, traceback.format_exc()[-800:])}
    print('\n@@RESULT@@' + json.dumps(out, default=repr))


if __name__ == '__main__':
    main()
