"""Discrete-event model of the multiprocessing / os / time slice used by playback.studio.equalizer.

Virtual clock in integer ticks (TPS ticks per second).  `Queue.get(True, t)` advances the clock tick by tick while it
waits; every `time()` read may be preceded by a lag (the parent being descheduled) during which worker events fire.
The worker process is a CONTRACT model of Equalizer._playback_process_target ("while not told to terminate: take the
oldest task, compute the answer with the REAL _play_and_compare_recording, put exactly one (ok, result)"), driven by a
per-task behaviour plan: answer after a delay / die before taking a task / die while working / hang.  The refinement
condition in C08 runs the real _playback_process_target on these queues to justify the contract.  os.kill marks the
process dead.  Real pipe buffering, signal delivery latency and pickling across processes are NOT modelled."""

TPS = 4


class Empty(Exception):
    pass


class WouldHang(BaseException):
    """the real program would block forever here (BaseException: the code's catch-alls must not turn it into a verdict)"""


class _Queues(object):
    Empty = Empty


class World(object):
    def __init__(self, plan, lags=None, child_first=False, kill_fails=False):
        self.child_first = child_first      # a freshly started child gets to run before its parent continues
        self.kill_fails = kill_fails        # os.kill raises OSError and the target stays alive (e.g. EPERM)
        self.now = 0
        self.plan = plan            # per task (in the order tasks are taken by workers): (kind, delay_ticks)
        self.lags = lags or []      # lag (ticks) before the i-th clock read of the parent (cyclic)
        self.procs = []
        self.taken = 0
        self.clock_reads = 0
        self.kills = []
        self.queues = []
        self.events = []

    def behaviour(self):
        k = self.plan[self.taken] if self.taken < len(self.plan) else ('ok', 0)
        self.taken += 1
        return k

    def advance(self, ticks):
        target = self.now + ticks
        while True:
            nxt = None
            for p in self.procs:
                t = p.next_event_time()
                if t is not None and t <= target and (nxt is None or t < nxt[0]):
                    nxt = (t, p)
            if nxt is None:
                break
            if nxt[0] > self.now:
                self.now = nxt[0]
            nxt[1].fire()
        self.now = target

    def time(self):
        lag = self.lags[self.clock_reads % len(self.lags)] if self.lags else 0
        self.clock_reads += 1
        if lag:
            self.advance(lag)
        else:
            self.advance(0)
        from pbsym.models.quiet import Q
        return Q(self.now, TPS)


class Queue(object):
    def __init__(self, world):
        self.w = world
        self.items = []
        self.closed = False
        self.put_log = []
        world.queues.append(self)

    def put(self, x, *a, **k):
        self.items.append(x)
        self.put_log.append(x)

    def get(self, block=True, timeout=None):
        ticks = int(timeout * TPS) if timeout else 0
        for i in range(ticks + 1):
            self.w.advance(0)
            if self.items:
                return self.items.pop(0)
            if i < ticks:
                self.w.advance(1)
        raise Empty()

    def empty(self):
        return not self.items

    def close(self):
        self.closed = True

    def join_thread(self):
        pass

    def cancel_join_thread(self):
        pass


class Event(object):
    def __init__(self, world=None):
        self.f = False
        if world is not None:
            world.events.append(self)

    def set(self):
        self.f = True

    def clear(self):
        self.f = False

    def is_set(self):
        return self.f


class Process(object):
    """contract model of one worker process bound to the Equalizer's CURRENT queues at start() time (fork semantics)"""
    _pid = [100]

    def __init__(self, world, eq_getter, target=None, name=None):
        self.w = world
        self.eq = eq_getter
        self.alive = False
        self.busy = None
        self.served = 0
        Process._pid[0] += 1
        self.pid = Process._pid[0]
        self.killed = False
        self.started = False
        self.tasks = None
        self.results = None
        self.terminate = None
        self.doomed = None

    def start(self):
        eq = self.eq()
        self.alive = True
        self.started = True
        # a forked child sees the queue / event objects its parent holds at fork time
        self.tasks = eq._compare_tasks
        self.results = eq._compare_results
        self.terminate = eq._terminate_process
        self.w.procs.append(self)
        if self.w.child_first:
            self.w.advance(0)       # fork returns in the child first: it may look at the terminate flag right away

    def is_alive(self):
        self.w.advance(0)
        return self.alive

    def join(self, timeout=None):
        # joining a worker that will never exit would hang the run: reported, not ignored
        self.w.advance(0)
        if self.alive:
            if self.busy is not None and self.busy[0] == 'hang':
                raise WouldHang('join() on a hung worker: the comparison run would never finish')
            if not self.terminate.is_set():
                raise WouldHang('join() on a worker that was not told to terminate: would never return')
            # finish what it is doing, then it sees the event and exits
            while self.alive:
                t = self.next_event_time()
                if t is None:
                    raise WouldHang('join() would hang')
                if t > self.w.now:
                    self.w.now = t
                self.fire()

    def next_event_time(self):
        if not self.alive:
            return None
        if self.busy is None:
            if self.terminate.is_set():
                return self.w.now
            if self.tasks.items:
                return self.w.now
            return None
        kind, t = self.busy[0], self.busy[1]
        return None if kind == 'hang' else t

    def fire(self):
        if self.busy is None:
            if self.terminate.is_set():
                self.alive = False
                return
            kind, delay = self.w.behaviour()
            if kind == 'die_idle':
                self.alive = False          # exits before taking the task: the task stays in the queue
                return
            task = self.tasks.items.pop(0)
            self.served += 1
            self.busy = (kind, self.w.now + delay, task)
            return
        kind, t, task = self.busy
        self.busy = None
        if kind == 'die':
            self.alive = False
            return
        eq = self.eq()
        try:
            res = (True, eq._play_and_compare_recording(task))
        except Exception as ex:
            res = (False, str(ex))
        self.results.put(res)


class FakeMP(object):
    queues = _Queues

    def __init__(self, world, eq_getter):
        self.w = world
        self.g = eq_getter

    def Queue(self, *a, **k):
        return Queue(self.w)

    def Event(self):
        return Event(self.w)

    def Process(self, target=None, name=None, **k):
        return Process(self.w, self.g, target, name)


class FakeOS(object):
    def __init__(self, world):
        self.w = world

    def kill(self, pid, sig):
        import signal
        self.w.kills.append((pid, sig))
        if self.w.kill_fails:
            raise OSError(1, 'Operation not permitted (model)')
        for p in self.w.procs:
            if p.pid == pid:
                # only SIGKILL cannot be caught: a hung replay may handle or ignore anything else and stay alive
                if sig == signal.SIGKILL or not (p.busy is not None and p.busy[0] == 'hang'):
                    p.alive = False
                    p.killed = True


def install(world, holder):
    """patch mp / os / time in the equalizer module; `holder['eq']` must be set to the Equalizer before it runs"""
    import playback.studio.equalizer as eqm
    eqm.mp = FakeMP(world, lambda: holder['eq'])
    eqm.os = FakeOS(world)
    eqm.time = world.time
    return eqm
