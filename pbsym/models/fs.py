"""Flat in-memory directory standing in for os / io / open in file_based_tape_cassette and file_interception.
Files are an association list (path -> content), so symbolic file names stay symbolic."""


class _FD(object):
    def __init__(self, path, flags):
        self.path = path
        self.flags = flags


class _File(object):
    def __init__(self, fs, path, mode, no_trunc=False):
        self.fs = fs
        self.path = path
        self.mode = mode
        self.buf = None
        self.no_trunc = no_trunc

    def __enter__(self):
        return self

    def __exit__(self, *a):
        self.close()
        return False

    def read(self, size=-1):
        self.fs.reads.append(self.path)
        if size is not None and size >= 0:
            if self.buf is None:
                self.buf = True
                return self.fs.get(self.path)        # the model hands the whole (opaque) content to the first chunk read
            return b'' if 'b' in self.mode else ''
        return self.fs.get(self.path)

    def write(self, data):
        if self.no_trunc:
            # written over the head of what is there: longer old content keeps its tail
            i = self.fs.find(self.path)
            if i >= 0 and self.fs.sizes[i] is not None:
                from pbsym.models.b64 import Mixed, model_len
                old, old_size = self.fs.files[i][1], self.fs.sizes[i]
                if old_size > model_len(data):
                    self.fs.put(self.path, Mixed(data, old), size=old_size)
                    return 0
        self.fs.put(self.path, data)
        return len(data) if hasattr(data, '__len__') else 0

    def close(self):
        pass


class _Path(object):
    def __init__(self, fs):
        self.fs = fs

    def isdir(self, d):
        return any(x == d for x in self.fs.dirs)

    def isfile(self, p):
        return self.fs.find(p) >= 0

    def join(self, a, b):
        return a + '/' + b

    def getsize(self, p):
        self.fs.stats.append(p)
        i = self.fs.find(p)
        if i < 0:
            raise OSError('no such file')
        return self.fs.sizes[i] if self.fs.sizes[i] is not None else len(self.fs.files[i][1])

    def exists(self, p):
        return self.isfile(p) or self.isdir(p)

    def getmtime(self, p):
        i = self.fs.find(p)
        if i < 0:
            raise OSError('no such file')
        return self.fs.mtimes[i]


class FS(object):
    def __init__(self):
        self.files = []     # (path, content)
        self.sizes = []     # explicit (symbolic) size or None
        self.mtimes = []    # logical modification stamps
        self.stamp = 0
        self.dirs = []
        self.reads = []
        self.writes = []
        self.stats = []
        self.opens = []
        self.path = _Path(self)
        self.environ = {}

    # --- os
    def mkdir(self, d):
        self.dirs.append(d)

    def listdir(self, d):
        pre = d + '/'
        return [p[len(pre):] for p, _ in self.files if p.startswith(pre)]

    def getenv(self, k, default=None):
        return self.environ.get(k, default)

    def stat(self, p):
        i = self.find(p)
        if i < 0:
            raise OSError('no such file')
        return type('St', (), {'st_mtime': self.mtimes[i], 'st_mtime_ns': self.mtimes[i], 'st_size': self.sizes[i]})()

    O_RDONLY, O_WRONLY, O_RDWR, O_CREAT, O_TRUNC, O_EXCL, O_APPEND = 0, 1, 2, 64, 512, 128, 1024

    def fdopen(self, fd, mode='r', *a, **k):
        return _File(self, fd.path, mode, no_trunc=True)

    def close(self, fd):
        pass

    # --- io / builtin open / os.open
    def open(self, path, mode='r', encoding=None, *a):
        if isinstance(mode, int):           # os.open(path, flags[, mode])
            flags = mode
            self.opens.append((path, 'os.open'))
            if self.find(path) < 0:
                if not flags & self.O_CREAT:
                    raise OSError('no such file')
                self.put(path, b'', size=0)
            elif flags & self.O_TRUNC:
                self.put(path, b'', size=0)
            return _FD(path, flags)
        self.opens.append((path, mode))
        if 'r' in mode and self.find(path) < 0:
            raise IOError('no such file: %r' % (path,))
        if 'w' in mode:
            self.put(path, '' if 'b' not in mode else b'')      # opening for writing creates / truncates at once
        return _File(self, path, mode)

    # --- helpers
    def find(self, p):
        for i, (q, _) in enumerate(self.files):
            if q == p:
                return i
        return -1

    def get(self, p):
        return self.files[self.find(p)][1]

    def put(self, p, data, size=None):
        self.writes.append(p)
        i = self.find(p)
        self.stamp += 1
        if i >= 0:
            self.files[i] = (p, data)
            self.sizes[i] = size
            self.mtimes[i] = self.stamp
        else:
            self.files.append((p, data))
            self.sizes.append(size)
            self.mtimes.append(self.stamp)


def install_file_cassette(fs=None):
    import playback.tape_cassettes.file_based.file_based_tape_cassette as m
    fs = fs or FS()
    m.os = fs
    m.io = fs
    return fs
