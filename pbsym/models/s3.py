"""In-memory stand-in for the slice of boto3 used by S3BasicFacade.  Keys are kept in an association list (no
hashing), so symbolic key texts stay symbolic.  Every mutation *intent* is logged (also deletes that match nothing),
and a crash can be injected after the k-th applied mutation.  There is no executable S3 offline (moto cannot be
imported), so this model follows boto3's documented semantics and is trusted."""


class Crash(BaseException):
    """the process dies here (not an Exception: must not be swallowed by `except Exception`)"""


class NoSuchKey(Exception):
    pass


class Body(object):
    def __init__(self, data):
        self._d = data

    def read(self):
        return self._d


class Store(object):
    def __init__(self):
        self.objs = []          # (key, body, last_modified, extra)
        self.log = []           # ('put', key) / ('delete', key) / ('delete_prefix', prefix)
        self.clock = lambda: 0
        self.crash_after = None
        self.applied = 0
        self.reads = []

    def find(self, key):
        for i, o in enumerate(self.objs):
            if o[0] == key:
                return i
        return -1

    def keys(self):
        return [o[0] for o in self.objs]

    def get(self, key):
        i = self.find(key)
        return None if i < 0 else self.objs[i][1]

    def _applied(self):
        self.applied += 1
        if self.crash_after is not None and self.applied == self.crash_after:
            raise Crash()

    def seed(self, key, body, t=0):
        self.objs.append((key, body, t, {}))


class ObjSummary(object):
    def __init__(self, store, key, val, t):
        self._s = store
        self.key = key
        self._v = val
        self.last_modified = t

    def get(self):
        self._s.reads.append(self.key)
        return {'Body': Body(self._v)}


class Filtered(object):
    def __init__(self, store, prefix):
        self._s = store
        self._p = prefix

    def __iter__(self):
        objs = [o for o in self._s.objs if o[0].startswith(self._p)]
        if all(type(o[0]) is str for o in objs):
            # S3 lists keys in lexicographic (UTF-8 binary) order, NOT in upload order; applied when the key texts are
            # plain concrete strings (sorting symbolic texts would make the solver enumerate orders)
            objs = sorted(objs, key=lambda o: o[0])
        return iter([ObjSummary(self._s, o[0], o[1], o[2]) for o in objs])

    def delete(self):
        self._s.log.append(('delete_prefix', self._p))
        keep = []
        deleted = []
        for o in self._s.objs:
            if o[0].startswith(self._p):
                deleted.append(o[0])
            else:
                keep.append(o)
        for k in deleted:
            self._s.log.append(('delete', k))
        self._s.objs = keep
        if deleted:
            self._s._applied()
        return [{'Deleted': [{'Key': k} for k in deleted]}]


class Objects(object):
    def __init__(self, store):
        self._s = store

    def filter(self, Prefix=None, **kw):
        return Filtered(self._s, Prefix or '')

    def all(self):
        return Filtered(self._s, '')


class Bucket(object):
    def __init__(self, store, name):
        self.objects = Objects(store)
        self.name = name


class Client(object):
    def __init__(self, store):
        self._s = store

    def put_object(self, Bucket, Key, Body, **kw):
        self._s.log.append(('put', Key))
        i = self._s.find(Key)
        rec = (Key, Body, self._s.clock(), kw)
        if i >= 0:
            self._s.objs[i] = rec
        else:
            self._s.objs.append(rec)
        self._s._applied()
        return {}

    def get_object(self, Bucket, Key):
        self._s.reads.append(Key)
        i = self._s.find(Key)
        if i < 0:
            raise NoSuchKey(Key)
        return {'Body': Body(self._s.objs[i][1])}

    def delete_object(self, Bucket, Key):
        self._s.log.append(('delete', Key))
        i = self._s.find(Key)
        if i >= 0:
            self._s.objs.pop(i)
            self._s._applied()
        return {}


class FakeBoto3(object):
    def __init__(self, store):
        self._s = store

    def resource(self, name, **kw):
        s = self._s

        class R(object):
            def Bucket(self, b):
                return Bucket(s, b)
        return R()

    def client(self, name, region_name=None, **kw):
        return Client(self._s)
