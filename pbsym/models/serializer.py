"""Contract model of jsonpickle's encode/decode (C extension-backed json underneath: cannot be executed on symbolic
data).  Contract: encode(v) returns an opaque text token naming a deep copy of v taken at encode time; decode(token)
returns a fresh deep copy.  encode raises TypeError for a value tree containing an `Unserializable` marker (models
"value not serializable").  With unpicklable=False the copy is lossy as documented (tuple/set -> list, object ->
dict of its attributes), so a flipped flag is visible.  Tokens are plain concrete text, so they survive
six.text_type(), .encode('utf-8'), bytes(), and the identity compress model."""
import copy

_TABLE = {}
_N = [0]
INSTALLED = []


class Unserializable(object):
    """marker: the real serializer would fail on this value"""
    def __init__(self, tag=0):
        self.tag = tag

    def __deepcopy__(self, memo):
        return self

    def __eq__(self, o):
        return isinstance(o, Unserializable) and o.tag == self.tag

    def __hash__(self):
        return 7

    def __getstate__(self):         # what makes the REAL jsonpickle fail on it (a TypeError would be swallowed as null)
        import pickle
        raise pickle.PicklingError('not serializable')


def reset():
    _TABLE.clear()
    _N[0] = 0


def _has_unserializable(v, depth=0):
    if isinstance(v, Unserializable):
        return True
    if depth > 6:
        return False
    if isinstance(v, (list, tuple, set, frozenset)):
        return any(_has_unserializable(x, depth + 1) for x in v)
    if isinstance(v, dict):
        return any(_has_unserializable(x, depth + 1) for x in v.values())
    if hasattr(v, 'items') and hasattr(v, '_i'):     # AssocDict
        return any(_has_unserializable(x, depth + 1) for _, x in v.items())
    d = getattr(v, '__dict__', None)
    if isinstance(d, dict) and not isinstance(v, type):
        return any(_has_unserializable(x, depth + 1) for x in d.values())
    return False


def _lossy(v):
    if isinstance(v, (tuple, set, frozenset, list)):
        return [_lossy(x) for x in v]
    if isinstance(v, dict):
        return dict((k, _lossy(x)) for k, x in v.items())
    if isinstance(v, (int, str, bytes, bool, type(None))):
        return v
    d = getattr(v, '__dict__', None)
    if isinstance(d, dict):
        return dict((k, _lossy(x)) for k, x in d.items())
    return v


_ATOMS = (int, str, bytes, bool, type(None), float, type)


def cp(v, check=False):
    """deep copy of a value tree (immutable leaves - including symbolic ints/strs - are shared); with check=True a
    value the serializer would reject raises TypeError.  Much cheaper under CrossHair than copy.deepcopy."""
    if isinstance(v, _ATOMS):
        return v
    t = type(v)
    if t is list:
        return [cp(x, check) for x in v]
    if t is tuple:
        return tuple([cp(x, check) for x in v])
    if t is dict:
        items = [(k, cp(x, check)) for k, x in v.items()]
        if check and all(type(k) is str for k, _ in items):
            # measured: jsonpickle 0.9.3 emits JSON objects with sorted keys, so a decoded dict iterates in key order
            # (only applied to plain concrete key texts; symbolic key texts keep insertion order)
            items.sort(key=lambda kv: kv[0])
        return dict(items)
    if t is set:
        return set([cp(x, check) for x in v])
    if hasattr(v, '_i') and hasattr(v, 'items'):        # AssocDict (symbolic key texts): copied item by item
        return t([(cp(k, check), cp(x, check)) for k, x in v.items()])
    if isinstance(v, Unserializable):
        if check:
            raise TypeError('value is not serializable (model)')
        return v
    if hasattr(v, '__deepcopy__'):
        if check and _has_unserializable(v):
            raise TypeError('value is not serializable (model)')
        return copy.deepcopy(v)
    d = getattr(v, '__dict__', None)
    if isinstance(d, dict) and not isinstance(v, type) and not callable(v):
        new = t.__new__(t)
        if isinstance(v, BaseException):
            new.args = cp(v.args, check)
        new.__dict__.update(dict([(k, cp(x, check)) for k, x in d.items()]))
        return new
    if check and _has_unserializable(v):
        raise TypeError('value is not serializable (model)')
    return copy.deepcopy(v)


def encode(value, unpicklable=True, **kw):
    stored = cp(value if unpicklable else _lossy(value), True)
    _N[0] += 1
    tok = 'blob:%d' % _N[0]
    _TABLE[tok] = stored
    return tok


def decode(tok, **kw):
    if isinstance(tok, bytes):
        tok = tok.decode('utf-8')
    return cp(_TABLE[tok])


def peek(tok):
    """the stored payload itself (for oracles that check the cassette content did not change)"""
    if isinstance(tok, bytes):
        tok = tok.decode('utf-8')
    return _TABLE[tok]


def kenc(value, unpicklable=True, **kw):
    """Key-text model: a deterministic, injective text of a tree value.  dict items are emitted in sorted key order
    (measured: jsonpickle sorts keys? no - see validator; the recorder sorts kwargs itself), sets in the order given
    by SET_ORDER (hash-seed oracle)."""
    if _has_unserializable(value):
        raise TypeError('value is not serializable (model)')
    if not unpicklable:
        # jsonpickle without type tags: tuples / sets become plain arrays, objects plain dicts of their attributes
        return _k(_lossy(value))
    return _k(value)


DICT_SORT = False   # True: dict items are emitted in sorted key order (what the real jsonpickle does: sort_keys)
SET_ORDER = [None]      # callable(list_of_elements) -> list in "iteration order"; None = as is


def _k(v):
    if isinstance(v, bool):
        return 'b1' if v else 'b0'
    if isinstance(v, int):
        # one code point per small int: injective and cheap for the solver (CrossHair strings are code point sequences;
        # rendering a symbolic int in decimal needs z3's int-to-string)
        if 0 <= v < 0xD800:
            return 'j' + chr(v)
        return 'i' + str(v) + ';'
    if isinstance(v, str):
        return 's' + chr(len(v)) + ':' + v
    if isinstance(v, bytes):
        return 'y%d:%s' % (len(v), v.decode('latin-1'))
    if v is None:
        return 'n'
    if isinstance(v, list):
        return 'L[' + ','.join(_k(x) for x in v) + ']'
    if isinstance(v, tuple):
        return 'T[' + ','.join(_k(x) for x in v) + ']'
    if isinstance(v, (set, frozenset)):
        elems = list(v)
        if SET_ORDER[0] is not None:
            elems = SET_ORDER[0](elems)
        return 'S[' + ','.join(_k(x) for x in elems) + ']'
    if isinstance(v, dict):
        items = list(v.items())
        if DICT_SORT and all(type(k) is str for k, _ in items):
            items.sort(key=lambda kv: kv[0])
        return 'D{' + ','.join(_k(k) + '=' + _k(x) for k, x in items) + '}'
    d = getattr(v, '__dict__', None)
    if isinstance(d, dict):
        items = list(d.items())
        if DICT_SORT:
            items.sort(key=lambda kv: kv[0])
        return 'O<' + type(v).__name__ + '>{' + ','.join(_k(k) + '=' + _k(x) for k, x in items) + '}'
    raise TypeError(type(v))


def install(key_model=True):
    """patch the serializer names in every playback module that imported them"""
    import playback.tape_recorder as a
    import playback.utils.pickle_copy as b
    import playback.tape_cassettes.in_memory.in_memory_tape_cassette as c
    import playback.tape_cassettes.file_based.file_based_tape_cassette as d
    a.encode = kenc if key_model else encode
    b.encode = encode
    b.decode = decode
    c.encode = encode
    c.decode = decode
    d.encode = encode
    d.decode = decode
    INSTALLED[:] = ['jsonpickle.encode/decode -> token model (tape_recorder key text: kenc), pickle_copy, in-memory and '
                    'file cassettes']
    try:
        import playback.tape_cassettes.s3.s3_tape_cassette as e
        e.encode = encode
        e.decode = decode
        INSTALLED.append('jsonpickle.encode/decode -> token model in s3_tape_cassette')
    except ImportError:
        pass
