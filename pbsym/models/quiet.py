"""Quiet rationals: exact n/d numbers (d > 0 shared by all Q of one run) whose payload stays symbolic when the
code under test formats them into log messages.  CrossHair's float is real-based and caps every verdict at
UNKNOWN, so rates, draws, instants and sizes are Q instead (linear integer arithmetic)."""


class Q(object):
    __slots__ = ('n', 'd')

    def __init__(self, n, d=1):
        self.n = n
        self.d = d

    def __ch_deep_realize__(self, memo):        # CrossHair's format()/deep_realize leaves the payload alone
        return self

    def __format__(self, spec):
        return '<q>'

    def __str__(self):
        return '<q>'

    __repr__ = __str__

    def _o(self, o):
        if isinstance(o, Q):
            if o.d is self.d:
                return o.n
            if type(o.d) is int and type(self.d) is int and o.d == self.d:
                return o.n
            raise AssertionError('Q numbers of one run share their denominator')
        return o * self.d

    def _pair(self, o):
        """(lhs, rhs) integers with  self ? o  <=>  lhs ? rhs ; denominators are positive.  Linear as long as at most
        one of the two denominators is symbolic and it is shared, or the other one is a concrete int."""
        if isinstance(o, Q):
            if o.d is self.d or (type(o.d) is int and type(self.d) is int and o.d == self.d):
                return self.n, o.n
            return self.n * o.d, o.n * self.d
        return self.n, o * self.d

    def __truediv__(self, o):
        # division by a concrete integral constant (e.g. bytes -> MB) stays exact; anything else is only ever
        # formatted into log lines
        if type(o) in (int, float) and o > 0 and float(o).is_integer() and type(self.d) is int:
            return Q(self.n, self.d * int(o))
        return Opaque()

    def __rtruediv__(self, o):
        return Opaque()

    __mul__ = __rmul__ = __rtruediv__

    def __le__(self, o):
        a, b = self._pair(o)
        return a <= b
    def __lt__(self, o):
        a, b = self._pair(o)
        return a < b
    def __ge__(self, o):
        a, b = self._pair(o)
        return a >= b
    def __gt__(self, o):
        a, b = self._pair(o)
        return a > b
    def __eq__(self, o):
        a, b = self._pair(o)
        return a == b
    def __ne__(self, o):
        a, b = self._pair(o)
        return a != b
    def __hash__(self): return 0
    def __sub__(self, o): return Q(self.n - self._o(o), self.d)
    def __add__(self, o): return Q(self.n + self._o(o), self.d)
    __radd__ = __add__
    def __rsub__(self, o): return Q(self._o(o) - self.n, self.d)
    def __bool__(self):
        return True if self.n != 0 else False      # a real bool (forks on the symbolic payload)
    def __deepcopy__(self, memo): return self
    def __copy__(self): return self


class Opaque(object):
    """result of arithmetic that is only formatted into a log message"""
    def __ch_deep_realize__(self, memo): return self
    def __format__(self, spec): return '<q>'
    def __str__(self): return '<q>'
    __repr__ = __str__
    def __truediv__(self, o): return self
    __rtruediv__ = __mul__ = __rmul__ = __add__ = __radd__ = __sub__ = __rsub__ = __truediv__


class Clock(object):
    """model of time.time(): returns the successive instants of a given non-decreasing list (then keeps the last)."""

    def __init__(self, instants=None, d=1):
        self.instants = instants
        self.d = d
        self.i = 0
        self.t = 0

    def __call__(self):
        if self.instants is None:
            self.t += 1
            return self.t
        v = self.instants[self.i] if self.i < len(self.instants) else self.instants[-1]
        self.i += 1
        return Q(v, self.d)


class Rng(object):
    """model of random.Random: hands out the given stream of draws (Q) and counts how many were consumed."""

    def __init__(self, draws, d):
        self.draws = draws
        self.d = d
        self.calls = 0

    def random(self):
        v = self.draws[self.calls] if self.calls < len(self.draws) else self.draws[-1]
        self.calls += 1
        return Q(v, self.d)


class Ids(object):
    """model of the uuid module: fresh, distinct, concrete ids."""

    def __init__(self, prefix='u'):
        self.n = 0
        self.prefix = prefix

    def uuid1(self):
        self.n += 1
        return type('U', (), {'hex': '%s%d' % (self.prefix, self.n)})


def num(n, d=1):
    """a number n/d: quiet rational under the solver, a real float when replaying on the real code"""
    from pbsym import ctx
    if ctx.REAL:
        return float(n) / float(d)
    return Q(n, d)


class RandomFactory(object):
    """model of the `Random` class name in a module: every construction returns a fresh generator that replays the
    same draw stream from its beginning (= determinism from the seed); constructions are counted."""

    def __init__(self, draws, d):
        self.draws = draws
        self.d = d
        self.made = []

    def __call__(self, seed=None):
        r = Rng(self.draws, self.d)
        r.seed = seed
        self.made.append(r)
        return r


def _rng_random(self):
    v = self.draws[self.calls] if self.calls < len(self.draws) else self.draws[-1]
    self.calls += 1
    return num(v, self.d)


Rng.random = _rng_random
