"""Integer model of the datetime slice used by the S3 cassette: instants are integer seconds on a UTC timeline;
`.days` of a difference is floor division by 86400 (as timedelta normalises); strftime('%Y%m%d') maps the day index
through a table of fixed-width day names (forks per day, seconds stay symbolic); `.date()` truncates to the day."""
DAY = 86400
NAMES = ['20260101', '20260102', '20260103', '20260104', '20260105', '20260106', '20260107', '20260108']


class MTD(object):
    def __init__(self, days=0, seconds=0):
        self.s = seconds + days * DAY

    @property
    def days(self):
        return self.s // DAY

    def total_seconds(self):
        return self.s


class MDT(object):
    NOW = None

    def __init__(self, s):
        self.s = s

    def __sub__(self, o):
        if isinstance(o, MTD):
            return MDT(self.s - o.s)
        return MTD(seconds=self.s - o.s)

    def __add__(self, td):
        return MDT(self.s + td.s)

    def __le__(self, o): return self.s <= o.s
    def __lt__(self, o): return self.s < o.s
    def __ge__(self, o): return self.s >= o.s
    def __gt__(self, o): return self.s > o.s
    def __eq__(self, o): return isinstance(o, MDT) and self.s == o.s
    def __ne__(self, o): return not self.__eq__(o)
    def __hash__(self): return 1
    def __bool__(self): return True

    def date(self):
        return MDT((self.s // DAY) * DAY)

    def replace(self, hour=None, minute=None, second=None, microsecond=None, tzinfo=None):
        s = self.s
        day = (s // DAY) * DAY
        rem = s - day
        h, r = rem // 3600, rem % 3600
        mi, se = r // 60, r % 60
        if hour is not None: h = hour
        if minute is not None: mi = minute
        if second is not None: se = second
        return MDT(day + h * 3600 + mi * 60 + se)

    def strftime(self, fmt):
        assert fmt == '%Y%m%d'
        d = self.s // DAY
        for i in range(len(NAMES)):
            if d == i:
                return NAMES[i]
        raise AssertionError('outside modelled days')

    @classmethod
    def utcnow(cls):
        return cls.NOW

    @classmethod
    def today(cls):
        return cls.NOW

    @classmethod
    def now(cls, tz=None):
        return cls.NOW


class Utc(object):
    @staticmethod
    def localize(d):
        return d


class Pytz(object):
    utc = Utc
