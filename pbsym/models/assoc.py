class AssocDict(object):
    """insertion-ordered mapping by equality only (no hashing): keeps symbolic str keys symbolic"""
    def __init__(self, items=None): self._i = list(items or [])
    def __bool__(self): return True
    def _find(self, k):
        for n, (a, b) in enumerate(self._i):
            if a == k: return n
        return -1
    def __setitem__(self, k, v):
        n = self._find(k)
        if n >= 0: self._i[n] = (k, v)
        else: self._i.append((k, v))
    def __getitem__(self, k):
        n = self._find(k)
        if n < 0: raise KeyError(k)
        return self._i[n][1]
    def __contains__(self, k): return self._find(k) >= 0
    def get(self, k, d=None):
        n = self._find(k); return d if n < 0 else self._i[n][1]
    def pop(self, k, *d):
        n = self._find(k)
        if n < 0:
            if d: return d[0]
            raise KeyError(k)
        return self._i.pop(n)[1]
    def keys(self): return [a for a, b in self._i]
    def values(self): return [b for a, b in self._i]
    def items(self): return list(self._i)
    def __iter__(self): return iter(self.keys())
    def __len__(self): return len(self._i)
    def update(self, o):
        for k, v in (o.items() if hasattr(o, 'items') else o): self[k] = v
    def __copy__(self): return AssocDict(self._i)
    def __deepcopy__(self, memo):
        import copy; return AssocDict([(copy.deepcopy(a, memo), copy.deepcopy(b, memo)) for a, b in self._i])
    def __eq__(self, o): return isinstance(o, AssocDict) and len(o) == len(self) and all(k in o and o[k] == v for k, v in self._i)
