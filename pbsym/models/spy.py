"""Spy cassette: records every call the recorder makes on the storage driver; optional fault injection."""
from playback.tape_cassette import TapeCassette
from playback.recordings.memory.memory_recording import MemoryRecording
from playback.exceptions import NoSuchRecording


class SpyCassette(TapeCassette):
    def __init__(self, inner=None, fail_save=False):
        self.log = []          # (event, recording id)
        self.n = 0
        self.inner = inner     # optional real cassette that actually stores
        self.fail_save = fail_save
        self.saved = {}

    def create_new_recording(self, category):
        self.n += 1
        if self.inner is not None:
            rec = self.inner.create_new_recording(category)
        else:
            rec = MemoryRecording(u'{}/r{}'.format(category, self.n))
        self.log.append(('create', rec.id))
        return rec

    def _save_recording(self, recording):
        self.log.append(('save', recording.id))
        if self.fail_save:
            raise IOError('storage failure (injected)')
        if self.inner is not None:
            self.inner._save_recording(recording)
        else:
            self.saved[recording.id] = recording

    def abort_recording(self, recording=None):
        self.log.append(('abort', recording.id))
        recording.close()

    def get_recording(self, recording_id):
        self.log.append(('get', recording_id))
        if self.inner is not None:
            return self.inner.get_recording(recording_id)
        if recording_id not in self.saved:
            raise NoSuchRecording(recording_id)
        return self.saved[recording_id]

    def iter_recording_ids(self, *a, **k):
        if self.inner is not None:
            return self.inner.iter_recording_ids(*a, **k)
        return iter(())

    def extract_recording_category(self, recording_id):
        return recording_id.split('/')[0]

    def events(self, rid=None):
        return [e for e, r in self.log if rid is None or r == rid]

    def mutations(self):
        return [(e, r) for e, r in self.log if e != 'get']
