"""Model of parse.compile(template).parse(text) for templates of literal text and named '{}' fields:
each field matches one or more characters, all but the last as few as possible (parse 1.6.6: '(.+?)')."""
import re as _re
class _Result(object):
    def __init__(self, named): self.named = named
class _Parser(object):
    def __init__(self, template):
        parts = _re.split(r'\{(\w+)\}', template)       # template is a concrete class constant
        self.lits = parts[0::2]; self.fields = parts[1::2]
    def parse(self, text):
        if not text.startswith(self.lits[0]): return None
        pos = len(self.lits[0]); named = {}
        for i, f in enumerate(self.fields):
            lit = self.lits[i + 1]
            last = (i == len(self.fields) - 1)
            if lit == '':
                if not last: raise NotImplementedError('adjacent fields')
                end = len(text)
            elif last:
                if not text.endswith(lit): return None
                end = len(text) - len(lit)
            else:
                end = text.find(lit, pos + 1)
                if end < 0: return None
            if end - pos < 1: return None
            named[f] = text[pos:end]
            pos = end + len(lit)
        return _Result(named)
def compile(template): return _Parser(template)
if __name__ == '__main__':
    import parse, itertools
    T = ['tape_recorder_recordings/{key_prefix}metadata/{id}', '{category}/{day}/{id}']
    texts = ['tape_recorder_recordings/metadata/C/2026/u', 'tape_recorder_recordings/p/metadata/C/2026/u',
             'tape_recorder_recordings/p/metadata/', 'C/2026/u1', 'C/2026/', 'a/b/c/d', '/x/y', 'C//u', 'x',
             'tape_recorder_recordings/metadata/metadata/C/1/u', 'tape_recorder_recordings/ametadata/b']
    bad = 0
    for t in T:
        for x in texts:
            a = parse.compile(t).parse(x); b = compile(t).parse(x)
            if (a is None) != (b is None) or (a is not None and a.named != b.named):
                bad += 1; print('DIFF', t, x, a and a.named, b and b.named)
    print('model vs real parse: %d vectors, %d differences' % (len(T) * len(texts), bad))
