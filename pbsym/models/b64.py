"""Contract model of base64 (C-level; symbolic bytes through the real base64 do not confirm): b64decode(b64encode(c))
== c, and an encoded text never equals the above-limit placeholder (the placeholder contains spaces, which are not in
the base64 alphabet - discharged as a z3 regular-expression query in C20).  File contents are opaque `Content` tokens."""


class Content(object):
    """opaque file content with an identity; its length lives in the fs model"""
    def __init__(self, tag, size=None):
        self.tag = tag
        self.size = size        # length in bytes (may be a symbolic quiet number); read through model_len()

    def __eq__(self, o):
        return isinstance(o, Content) and o.tag == self.tag

    def __ne__(self, o):
        return not self.__eq__(o)

    def __hash__(self):
        return 5

    def __len__(self):
        return 0

    def __deepcopy__(self, memo):
        return self


class Encoded(object):
    def __init__(self, content):
        self.content = content

    def __eq__(self, o):
        return isinstance(o, Encoded) and o.content == self.content

    def __ne__(self, o):
        return not self.__eq__(o)

    def __hash__(self):
        return 6

    def __deepcopy__(self, memo):
        return self


class B64(object):
    calls = []

    @staticmethod
    def b64encode(c):
        B64.calls.append('enc')
        return Encoded(c)

    @staticmethod
    def b64decode(e):
        B64.calls.append('dec')
        if not isinstance(e, Encoded):
            raise ValueError('not base64 (model)')
        return e.content


class Mixed(object):
    """what a file holds after new bytes were written over the head of longer old content without truncation"""
    def __init__(self, new, old):
        self.new = new
        self.old = old

    def __eq__(self, o):
        return False

    def __ne__(self, o):
        return True

    def __hash__(self):
        return 8


def model_len(x):
    """len() for the modules under test: opaque contents know their (symbolic) size"""
    if isinstance(x, Content) and x.size is not None:
        return x.size
    return len(x)
