"""Contract model of base64 (C-level; symbolic bytes through the real base64 do not confirm): b64decode(b64encode(c))
== c, and an encoded text never equals the above-limit placeholder (the placeholder contains spaces, which are not in
the base64 alphabet - discharged as a z3 regular-expression query in C20).  File contents are opaque `Content` tokens."""


class Content(object):
    """opaque file content with an identity; its length lives in the fs model"""
    def __init__(self, tag):
        self.tag = tag

    def __eq__(self, o):
        return isinstance(o, Content) and o.tag == self.tag

    def __ne__(self, o):
        return not self.__eq__(o)

    def __hash__(self):
        return 5

    def __len__(self):
        return 0

    def __deepcopy__(self, memo):
        return self


class Encoded(object):
    def __init__(self, content):
        self.content = content

    def __eq__(self, o):
        return isinstance(o, Encoded) and o.content == self.content

    def __ne__(self, o):
        return not self.__eq__(o)

    def __hash__(self):
        return 6

    def __deepcopy__(self, memo):
        return self


class B64(object):
    calls = []

    @staticmethod
    def b64encode(c):
        B64.calls.append('enc')
        return Encoded(c)

    @staticmethod
    def b64decode(e):
        B64.calls.append('dec')
        if not isinstance(e, Encoded):
            raise ValueError('not base64 (model)')
        return e.content
