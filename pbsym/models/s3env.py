"""Installs the environment models around the real S3TapeCassette / S3BasicFacade (namespace patching only)."""
from pbsym import ctx
from pbsym.models import s3 as fs3, serializer, mdt, parse_model, quiet


class Blob(object):
    """result of the compress model: opaque compressed bytes naming their source, with an arbitrary (symbolic) size"""
    def __init__(self, data, size):
        self.data = data
        self.size = size

    def __eq__(self, o):
        return isinstance(o, Blob) and o.data == self.data

    def __hash__(self):
        return 3


class Env(object):
    pass


def install(store=None, ids=None, use_mdt=True, now=0, size=None, real_parse=False, clock=None):
    """returns an Env with .store .ids; `size`: symbolic compressed size (quiet int) or None for len(data)"""
    import playback.tape_cassettes.s3.s3_basic_facade as fac
    import playback.tape_cassettes.s3.s3_tape_cassette as s3m
    import playback.utils.timing_utils as tu
    env = Env()
    env.store = store or fs3.Store()
    env.ids = ids or quiet.Ids()
    env.s3m = s3m
    env.fac = fac
    fac.boto3 = fs3.FakeBoto3(env.store)
    s3m.uuid = env.ids
    tu.time = clock or (lambda: 0)
    env.stubs = ['boto3 -> in-memory bucket model (assoc list, mutation/intent log, crash injection)',
                 'uuid -> fresh distinct ids', 'timing_utils.time -> constant clock']
    if not ctx.REAL:
        serializer.install()
        s3m.encode = serializer.encode
        s3m.decode = serializer.decode

        def compress(b):
            return Blob(b, size)

        def decompress(blob):
            return blob.data

        def model_len(x):
            if isinstance(x, Blob):
                if x.size is None:
                    return len(x.data)
                return quiet.Q(x.size, 1)
            return len(x)
        s3m.json = type('JsonModel', (), {'loads': staticmethod(lambda text: serializer.decode(text))})
        s3m.compress = compress
        s3m.decompress = decompress
        s3m.len = model_len
        if not real_parse:
            s3m.compile = parse_model.compile
        env.stubs += ['jsonpickle encode/decode -> token model', 'zlib compress/decompress -> opaque blob of arbitrary '
                      'symbolic length', 'parse.compile -> str.find based inverse-of-format model',
                      'json.loads in the S3 content filter -> decodes the token']
    if use_mdt:
        if not ctx.REAL:
            s3m.datetime = mdt.MDT
            s3m.timedelta = mdt.MTD
            fac.pytz = mdt.Pytz
            mdt.MDT.NOW = mdt.MDT(now)
            env.store.clock = lambda: mdt.MDT.NOW
            env.stubs.append('datetime/timedelta/pytz -> integer-seconds UTC timeline with a day-name table')
            env.dt = mdt.MDT
        else:
            import datetime as _dt
            import pytz
            base = _dt.datetime(2026, 1, 1)
            s3m.timedelta = _dt.timedelta
            fac.pytz = pytz

            class FrozenDT(_dt.datetime):
                NOW = None

                @classmethod
                def utcnow(cls):
                    return cls.NOW

                @classmethod
                def today(cls):
                    return cls.NOW

                @classmethod
                def now(cls, tz=None):
                    return cls.NOW

            def mk(s):
                d = base + _dt.timedelta(seconds=s)
                return FrozenDT(d.year, d.month, d.day, d.hour, d.minute, d.second)
            FrozenDT.NOW = mk(now)
            s3m.datetime = FrozenDT
            env.store.clock = lambda: pytz.utc.localize(FrozenDT.NOW)
            env.dt = mk
            env.FrozenDT = FrozenDT
    return env


def set_now(env, s):
    if not ctx.REAL:
        mdt.MDT.NOW = mdt.MDT(s)
    else:
        env.FrozenDT.NOW = env.dt(s)


def instant(env, s):
    return mdt.MDT(s) if not ctx.REAL else env.dt(s)
