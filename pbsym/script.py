"""Bounded "operation program" interpreter.

A program is a list of opcodes (solver variables).  It is interpreted by a service class whose methods carry the REAL
decorators of a TapeRecorder (operation / class_operation / intercept_input / static_intercept_input /
intercept_output / static_intercept_output, property inputs, alias resolvers, captured-argument subsets, data handlers,
nested interceptions) - or identity decorators (the undecorated twin that serves as reference).

opcode = 2 * kind + arg, kinds:
  A  instance input  alias 'a'            a(arg)
  B  instance input  alias 'b'            b(arg)
  S  static input    alias 's'            s(arg)
  P  property input  alias 'p'            .p
  R  resolver alias  'r.{name}'           r(arg)
  C  captured subset alias 'c'            c(arg, acc)      only `arg` is part of the key
  D  static captured subset alias 'd'     d(arg, acc)      static; only position 0 (`arg`) is part of the key
  H  data-handler input alias 'h'         h(arg)
  N  nested input    alias 'n'            n()              body calls a(0) (must not be intercepted separately)
  M  mutating input  alias 'm'            m([arg])         the body appends to the list it was given (key = pre-call value)
  O  instance output alias 'o'            o(acc, k=arg)
  T  static output   alias 't'            t(acc)
  U  data-handler output alias 'u'        u(acc)
  X  repeat: `rep` times o(acc, k=arg)    (ordinals >= 10)

Returned values fold into an accumulator; input bodies take their values from an environment table indexed by
(alias, captured argument) - the design assumption "an input is a function of alias and captured arguments" is built
in - and may raise `Boom` per table flag.  Everything is journalled twice: `journal` inside the wrapped bodies (who
really executed) and `sitelog` at the call sites (what each call returned / raised to the caller).
"""
from pbsym.models.serializer import Unserializable

KINDS = ['A', 'B', 'S', 'P', 'R', 'C', 'D', 'H', 'N', 'M', 'O', 'T', 'U', 'X']
NOPS = 2 * len(KINDS)
INPUT_KINDS = ('A', 'B', 'S', 'P', 'R', 'C', 'D', 'H', 'N', 'M')
OUTPUT_KINDS = ('O', 'T', 'U', 'X')
NSLOTS = 8

FAULTS = ['key_arg', 'key_resolver', 'in_handler', 'out_handler', 'unser_value', 'discard_op', 'discard_body',
          'force_op', 'force_body']


def op_of(kind, arg=0):
    return 2 * KINDS.index(kind) + arg


def describe(script):
    return ['%s%d' % (KINDS[o // 2], o % 2) for o in script]


class Boom(Exception):
    """ordinary exception raised by environment inputs / by the operation"""


class Boom2(Exception):
    pass


class Interrupt(BaseException):
    """interrupt-style termination (KeyboardInterrupt / SystemExit like)"""


class UVal(Unserializable):
    """a value the serializer rejects but that the program can still add up"""
    def __init__(self, v):
        Unserializable.__init__(self, 0)
        self.v = v

    def __radd__(self, o):
        return o + self.v

    def __add__(self, o):
        return self.v + o


class Plan(object):
    """everything that parametrises one run; any field may be symbolic"""
    def __init__(self, script, vals, exc=None, final=0, rep=0):
        self.script = script
        self.vals = vals                    # NSLOTS env values
        self.exc = exc or [False] * NSLOTS  # NSLOTS "input raises Boom" flags
        self.final = final                  # 0 return acc, 1 raise Boom, 2 raise Interrupt, 3 return an unserializable object
        self.rep = rep
        self.term_at = -1                   # early termination before/inside step term_at
        self.term_kind = 1                  # 1 Boom, 2 Interrupt
        self.term_in_body = False
        self.faults = []                    # [(kind, step)]
        self.extractor = 0                  # 0 none, 1 ok, 2 raises, 3 returns None, 4 int, 5 str, 6 list
        self.extractor_val = 0
        self.class_level = False
        self.shift = 0                      # live environment shift (replay uses a different live environment)
        self.out_vals = None                # values returned by output bodies (default: derived)
        self.uvals = []
        self.excs = []                      # pre-created exception objects (identity is compared with the twin)
        self.lenient_outputs = False        # outputs declared with fail_on_no_recorded_result=False (default result -5)


def exc_obj(plan, key, cls):
    """the one exception object this plan raises at `key` (decorated run and twin raise the very same object)"""
    for k, e in plan.excs:
        if k == key:
            return e
    e = cls()
    plan.excs.append((key, e))
    return e


class Run(object):
    """mutable state of one execution of a program"""
    def __init__(self, tr=None):
        self.tr = tr
        self.journal = []       # appended inside wrapped bodies
        self.sitelog = []       # appended at call sites
        self.sent = []          # (alias, args, kwargs) logged at the call site before invoking an output
        self.cur = None         # step being executed
        self.cur_faults = ()
        self.handler_calls = []
        self.extractor_calls = 0
        self.result = None
        self.fired = []         # faults that were really injected into the framework: (kind, step)


class _Null(object):
    """identity decorators: the undecorated twin"""
    def _id(self, *a, **k):
        return lambda f: f
    operation = class_operation = intercept_input = static_intercept_input = _id
    intercept_output = static_intercept_output = _id

    def recording_params(self, *a, **k):
        return lambda cls: cls

    def discard_recording(self):
        pass

    def force_sample_recording(self):
        pass

    def disable_recording(self):
        pass


NULL = _Null()


def slot(kind, arg):
    return (2 * KINDS.index(kind) + arg) % NSLOTS


def make_service(deco, plan, run, handlers=None, params=None):
    """build the service class around `deco` (a TapeRecorder, or NULL for the twin)"""
    from playback.tape_recorder import CapturedArg
    from playback.interception.input_interception import InputInterceptionDataHandler
    from playback.interception.output_interception import OutputInterceptionDataHandler
    tr = deco

    def env(kind, arg):
        s = slot(kind, arg)
        if plan.exc[s]:
            raise exc_obj(plan, ('env', s), Boom)
        v = plan.vals[s] + plan.shift
        if 'unser_value' in run.cur_faults:
            key = (s, plan.shift)
            for k2, u in plan.uvals:            # the very same object for the decorated run and its twin
                if k2 == key:
                    return u
            u = UVal(v)
            plan.uvals.append((key, u))
            return u
        return v

    def in_body(tag, *args):
        run.journal.append((tag,) + tuple(a for a in args))
        if 'discard_body' in run.cur_faults:
            run.fired.append(('discard_body', run.cur))
            tr.discard_recording()
        if 'force_body' in run.cur_faults:
            tr.force_sample_recording()
        if plan.term_in_body and run.cur == plan.term_at:
            raise exc_obj(plan, 'term', Boom2 if plan.term_kind == 1 else Interrupt)

    class InH(InputInterceptionDataHandler):
        def prepare_input_for_recording(self, interception_key, result, args, kwargs):
            run.handler_calls.append(('prepare_in', interception_key))
            if 'in_handler' in run.cur_faults:
                run.fired.append(('in_handler', run.cur))
                raise Boom2('handler')
            return ['wrapped', result]

        def restore_input_from_recording(self, recorded_data, args, kwargs):
            run.handler_calls.append(('restore_in',))
            return recorded_data[1]

    class OutH(OutputInterceptionDataHandler):
        def prepare_output_for_recording(self, interception_key, args, kwargs):
            run.handler_calls.append(('prepare_out', interception_key))
            if 'out_handler' in run.cur_faults:
                run.fired.append(('out_handler', run.cur))
                raise Boom2('handler')
            return {'handled': list(args)}

        def restore_output_from_recording(self, recorded_data):
            return recorded_data

    def resolver(self, x):
        if 'key_resolver' in run.cur_faults:
            run.fired.append(('key_resolver', run.cur))
            raise Boom2('resolver')
        return {'name': self.name}

    def extractor(*a, **k):
        run.extractor_calls += 1
        e = plan.extractor
        if e == 2:
            raise Boom2('extractor')
        if e == 3:
            return None
        if e == 4:
            return 5
        if e == 5:
            return 'junk'
        if e == 6:
            return [1, 2]
        return {'user_key': plan.extractor_val, 'user_key2': 'x'}

    opkw = {'metadata_extractor': extractor} if plan.extractor else {}
    outkw = {'fail_on_no_recorded_result': False, 'default_result_when_not_recorded': -5} if plan.lenient_outputs else {}

    def out_val(i):
        if plan.out_vals is not None:
            return plan.out_vals[i % len(plan.out_vals)] + plan.shift
        return 100 + i + plan.shift

    class Svc(object):
        name = 'n1'

        @deco.operation(**opkw)
        def execute(self):
            return body(self)

        @classmethod
        @deco.class_operation(**opkw)
        def cexecute(cls):
            return body(cls())

        @deco.intercept_input('a')
        def a(self, x):
            in_body('a', x)
            return env('A', x if isinstance(x, int) else 0)

        @deco.intercept_input('b')
        def b(self, x):
            in_body('b', x)
            return env('B', x if isinstance(x, int) else 0)

        @staticmethod
        @deco.static_intercept_input('s')
        def s(x):
            in_body('s', x)
            return env('S', x if isinstance(x, int) else 0)

        @deco.intercept_input('p')
        @property
        def p(self):
            in_body('p')
            return env('P', 0)

        @deco.intercept_input('r.{name}', alias_params_resolver=resolver)
        def r(self, x):
            in_body('r', x)
            return env('R', x if isinstance(x, int) else 0)

        @deco.intercept_input('c', capture_args=[CapturedArg(1, 'x')])
        def c(self, x, y):
            in_body('c', x)
            return env('C', x if isinstance(x, int) else 0)

        @staticmethod
        @deco.static_intercept_input('d', capture_args=[CapturedArg(0, 'x')])
        def d(x, y):
            in_body('d', x)
            return env('D', x if isinstance(x, int) else 0)

        @deco.intercept_input('h', data_handler=InH())
        def h(self, x):
            in_body('h', x)
            return env('H', x if isinstance(x, int) else 0)

        @deco.intercept_input('n')
        def n(self):
            in_body('n')
            return self.a(0) + 1

        @deco.intercept_input('m')
        def m(self, lst):
            in_body('m', list(lst))
            v = env('M', lst[0] if isinstance(lst[0], int) else 0)
            lst.append(99)
            return v

        @deco.intercept_output('o', **outkw)
        def o(self, v, k=0):
            in_body('o', v, k)
            return out_val(k)

        @staticmethod
        @deco.static_intercept_output('t', **outkw)
        def t(v):
            in_body('t', v)
            return out_val(2)

        @deco.intercept_output('u', data_handler=OutH(), **outkw)
        def u(self, v):
            in_body('u', v)
            return out_val(3)

    if params is not None:
        Svc = deco.recording_params(**params)(Svc)

    def call(self, kind, arg, acc):
        bad = Unserializable(1) if 'key_arg' in run.cur_faults else None
        x = bad if bad is not None else arg
        if bad is not None and kind in ('A', 'B', 'S', 'R', 'C', 'D', 'H', 'M'):
            run.fired.append(('key_arg', run.cur))
        if kind == 'A':
            return self.a(x)
        if kind == 'B':
            return self.b(x)
        if kind == 'S':
            return Svc.s(x)
        if kind == 'P':
            return self.p
        if kind == 'R':
            return self.r(x)
        if kind == 'C':
            return self.c(x, acc)
        if kind == 'D':
            return Svc.d(x, acc)
        if kind == 'H':
            return self.h(x)
        if kind == 'N':
            return self.n()
        if kind == 'M':
            return self.m([x])
        if kind == 'O':
            run.sent.append(('o', [acc], {'k': arg}))
            return self.o(acc, k=arg)
        if kind == 'T':
            run.sent.append(('t', [acc], {}))
            return Svc.t(acc)
        if kind == 'U':
            run.sent.append(('u', [acc], {}))
            return self.u(acc)
        raise AssertionError(kind)

    def body(self):
        acc = 0
        script = plan.script
        for i in range(len(script)):
            op = script[i]
            run.cur = i
            run.cur_faults = tuple(k for k, at in plan.faults if at == i)
            if 'discard_op' in run.cur_faults:
                run.fired.append(('discard_op', i))
                tr.discard_recording()
            if 'force_op' in run.cur_faults:
                tr.force_sample_recording()
            if 'disable_op' in run.cur_faults:
                tr.disable_recording()
            if (not plan.term_in_body) and plan.term_at == i:
                raise exc_obj(plan, 'term', Boom2 if plan.term_kind == 1 else Interrupt)
            kind = KINDS[op // 2]
            arg = op % 2
            n = 1
            if kind == 'X':
                kind = 'O'
                n = plan.rep
            for _ in range(n):
                try:
                    r = call(self, kind, arg, acc)
                    run.sitelog.append((i, 'ret', r))
                    acc = acc + r
                except Boom as ex:
                    run.sitelog.append((i, 'exc', 'Boom', ex))
                    acc = acc + 7
        run.cur = None
        run.cur_faults = ()
        if plan.final == 1:
            raise exc_obj(plan, 'final', Boom)
        if plan.final == 2:
            raise exc_obj(plan, 'final', Interrupt)
        if plan.final == 3:
            for k2, u in plan.uvals:            # the operation's result itself is something the serializer rejects
                if k2 == 'final':
                    return u
            u = UVal(acc)
            plan.uvals.append(('final', u))
            return u
        return acc

    return Svc


def execute(Svc, plan, run):
    """run the operation; returns ('ret', value) | ('exc', exception object)"""
    try:
        if plan.class_level:
            out = ('ret', Svc.cexecute())
        else:
            out = ('ret', Svc().execute())
    except (Exception, Interrupt) as ex:  # never a bare BaseException: CrossHair steers paths with those
        out = ('exc', ex)
    run.result = out
    return out


def same_outcome(a, b, identity=False):
    """two ('ret'|'exc', x) outcomes agree: equal value / same exception type (identity: the very same object)"""
    if a[0] != b[0]:
        return False
    if identity and a[0] == 'exc':
        return a[1] is b[1]
    if a[0] == 'ret':
        return a[1] == b[1] if not isinstance(a[1], UVal) else a[1] is b[1]
    return type(a[1]) is type(b[1])


def same_sitelog(l1, l2, identity=False):
    if len(l1) != len(l2):
        return False
    for x, y in zip(l1, l2):
        if x[0] != y[0] or x[1] != y[1]:
            return False
        if x[1] == 'ret':
            if isinstance(x[2], UVal) or isinstance(y[2], UVal):
                if identity:
                    if x[2] is not y[2]:
                        return False
                elif not (isinstance(x[2], UVal) and isinstance(y[2], UVal) and x[2].v == y[2].v):
                    return False
            elif not (x[2] == y[2]):
                return False
        elif x[2] != y[2]:
            return False
        elif identity and x[3] is not y[3]:
            return False
    return True


def outputs_as_map(outputs):
    """list of Output(key, value) -> assoc list sorted by key text (keys are concrete here)"""
    return sorted(((o.key, o.value) for o in outputs), key=lambda kv: kv[0])
