"""Orchestrates one property check: known findings -> shards under CrossHair (16-way) -> replay of counterexamples
on the real code -> evidence file -> exit code.

exit 0  every condition CONFIRMED within its bounds (known findings printed as KNOWN-FINDING lines)
exit 1  + "VIOLATION property=<id> replay=<path>": a solver counterexample that reproduced on the real code
exit 3  + "INCONCLUSIVE …": timeout / unknown / counterexample that did not reproduce (= harness or stub wrong)
"""
import os
import sys
import json
import time
import hashlib
import subprocess
import importlib
from concurrent.futures import ThreadPoolExecutor

ROOT = os.path.dirname(os.path.dirname(os.path.abspath(__file__)))
SRC = os.environ.get('PB_SRC', '/repo')
PY = sys.executable
LEVEL = 'model_checking'


def _run_json(argv, timeout):
    t0 = time.time()
    try:
        p = subprocess.run(argv, stdout=subprocess.PIPE, stderr=subprocess.PIPE, timeout=timeout, cwd=ROOT,
                           env=dict(os.environ, PYTHONHASHSEED=os.environ.get('PYTHONHASHSEED', '0')))
    except subprocess.TimeoutExpired:
        return {'state': 'inconclusive', 'message': 'worker killed after %.0f s' % timeout, 'wall_s': time.time() - t0}
    out = p.stdout.decode('utf-8', 'replace')
    i = out.rfind('@@RESULT@@')
    if i < 0:
        return {'state': 'inconclusive', 'wall_s': time.time() - t0,
                'message': 'worker produced no result (rc=%s): %s' % (p.returncode, (p.stderr.decode('utf-8', 'replace')[-1500:]))}
    return json.loads(out[i + len('@@RESULT@@'):])


def run_worker(modname, cond, spec):
    r = _run_json([PY, '-m', 'pbsym.worker', modname, cond, json.dumps(spec)], spec['timeout'] * 1.5 + 60)
    r.setdefault('condition', cond)
    r.setdefault('shard', spec.get('shard'))
    r.setdefault('mode', spec.get('mode'))
    return r


def run_replay(modname, cond, args, shard, bounds, timeout=300):
    spec = {'args': args, 'shard': shard, 'bounds': bounds}
    return _run_json([PY, '-m', 'pbsym.replayer', modname, cond, json.dumps(spec)], timeout)


def source_digest(functions):
    """check every declared function exists in the current source; return sha256 per module file read"""
    import ast
    files = {}
    missing = []
    for f in functions:
        path, _, qual = f.partition('::')
        full = os.path.join(SRC, path)
        if path not in files:
            try:
                data = open(full, 'rb').read()
            except IOError:
                missing.append(f)
                continue
            files[path] = (hashlib.sha256(data).hexdigest()[:16], ast.parse(data))
        tree = files[path][1]
        node = tree
        ok = True
        for part in qual.split('.'):
            nxt = None
            for ch in ast.walk(node) if node is tree else ast.iter_child_nodes(node):
                if isinstance(ch, (ast.FunctionDef, ast.ClassDef)) and ch.name == part:
                    nxt = ch
                    break
            if nxt is None:
                # nested function: search anywhere below
                for ch in ast.walk(node):
                    if isinstance(ch, (ast.FunctionDef, ast.ClassDef)) and ch.name == part:
                        nxt = ch
                        break
            if nxt is None:
                ok = False
                break
            node = nxt
        if not ok:
            missing.append(f)
    return dict((p, v[0]) for p, v in files.items()), missing


def load_known(prop):
    path = os.path.join(ROOT, 'known_findings.json')
    if not os.path.exists(path):
        return []
    data = json.load(open(path))
    return [e for e in data.get('findings', []) if e.get('property') == prop and e.get('status', 'open') == 'open']


def main(argv=None):
    argv = argv or sys.argv[1:]
    prop = argv[0]
    tier = os.environ.get('VERIF_TIER') or 'quick'
    replay_path = None
    i = 1
    while i < len(argv):
        if argv[i] == '--tier':
            tier = argv[i + 1]
            i += 2
        elif argv[i] == '--replay':
            replay_path = argv[i + 1]
            i += 2
        else:
            i += 1
    seed = int(os.environ.get('VERIF_SEED', '0') or 0)
    os.environ['PBSYM_TIER'] = tier
    sys.path.insert(0, ROOT)
    sys.path.insert(0, SRC)
    modname = 'harness.' + prop
    t_start = time.time()
    H = importlib.import_module(modname)

    if replay_path:
        spec = json.load(open(replay_path))
        r = run_replay(spec['module'], spec['condition'], spec['args'], spec.get('shard'), spec.get('bounds'))
        print(json.dumps(r, indent=1))
        if r.get('violated'):
            print('VIOLATION property=%s replay=%s' % (prop, replay_path))
            return 1
        return 0

    # evidence/ and replays/ of /verif are only written by runs against the registered tree; runs against scratch
    # copies (tools/try_patch.sh) redirect both so that committed evidence always describes the unchanged tree
    evid_dir = os.environ.get('PBSYM_EVIDENCE_DIR') or os.path.join(ROOT, 'evidence')
    repl_dir = os.environ.get('PBSYM_REPLAY_DIR') or os.path.join(ROOT, 'replays')
    os.makedirs(evid_dir, exist_ok=True)
    os.makedirs(repl_dir, exist_ok=True)
    digests, missing = source_digest(H.FUNCTIONS)
    lines = []
    inconclusive = []
    violations = []
    known_lines = []
    excluded = []

    if missing:
        print('note: declared functions not found in %s (renamed/removed?): %s' % (SRC, missing))

    # ---- 1. known findings: replay each witness on the real code
    validated = 0
    known = load_known(prop)
    known_state = []
    for e in known:
        r = run_replay(e.get('module') or modname, e['condition'], e['witness'], e.get('shard') or {}, e.get('bounds') or {})
        validated += 1
        if r.get('violated'):
            known_lines.append('KNOWN-FINDING: property=%s %s [%s]' % (prop, e['what'], e['id']))
            excluded.append(e['id'])
            known_state.append({'id': e['id'], 'reproduces': True, 'detail': r.get('detail')})
        else:
            known_state.append({'id': e['id'], 'reproduces': False, 'detail': r.get('detail') or r.get('message')})
    for ln in known_lines:
        print(ln)
    sys.stdout.flush()

    # ---- 2. all condition shards (+ one reachability twin per condition), 16-way
    jobs = []
    only_fn = os.environ.get('PBSYM_ONLY_FN')     # development aid: restrict a run to one condition (never registered)
    for c in H.CONDITIONS:
        t = c['tiers'].get(tier) or c['tiers']['quick']
        if t is None or (only_fn and c['fn'] != only_fn):
            continue
        shards = t.get('shards') or [{}]
        for sh in shards:
            jobs.append((c, {'shard': sh, 'bounds': t.get('bounds', {}), 'mode': 'check',
                             'timeout': t.get('timeout', 120), 'excluded': excluded}))
        if c.get('nontrivial') is not None or c.get('witness', True):
            wsh = t.get('witness_shard', shards[0])
            jobs.append((c, {'shard': wsh, 'bounds': t.get('bounds', {}), 'mode': 'witness',
                             'timeout': t.get('witness_timeout', 60), 'excluded': excluded,
                             'witness_tag': c.get('nontrivial')}))
    ncpu = int(os.environ.get('VERIF_JOBS', '0') or 0) or min(16, os.cpu_count() or 4)
    with ThreadPoolExecutor(max_workers=ncpu) as ex:
        results = list(ex.map(lambda j: run_worker(j[0].get('module') or modname, j[0]['fn'], j[1]), jobs))

    # ---- 3. direct SMT obligations generated from the source (E4), if the harness has any
    extra = []
    if hasattr(H, 'extra_obligations'):
        try:
            extra = H.extra_obligations(tier, SRC, excluded)
        except Exception as ex_:
            extra = [{'name': 'extra_obligations', 'state': 'inconclusive', 'message': repr(ex_)}]

    # ---- 4. classify, replay counterexamples on the real code
    samples = []
    shard_table = []
    tot = {'paths': 0, 'queries': 0, 'solver_s': 0.0, 'completed': 0, 'nontrivial': 0}
    for (c, spec), r in zip(jobs, results):
        row = {'condition': c['fn'], 'mode': spec['mode'], 'shard': spec['shard'], 'state': r.get('state'),
               'paths': r.get('paths', 0), 'queries': r.get('queries', 0), 'solver_s': r.get('solver_s', 0.0),
               'wall_s': r.get('wall_s'), 'crosshair': r.get('crosshair_state')}
        shard_table.append(row)
        tot['queries'] += r.get('queries', 0)
        tot['solver_s'] += r.get('solver_s', 0.0)
        if spec['mode'] == 'witness':
            if r.get('state') == 'counterexample':
                sample = {'condition': c['fn'], 'kind': 'reachability witness (tag %s)' % c.get('nontrivial'),
                          'shard': spec['shard'], 'args': r['args']}
                # the witness is also executed on the REAL code (stubs replaced by the real libraries): the oracle must
                # hold there as it does in the model - a cheap end-to-end validation of the models on a non-trivial case
                rp = run_replay(c.get('module') or modname, c['fn'], r['args'], spec['shard'], spec['bounds'])
                sample['oracle_on_real_code'] = 'holds' if rp.get('violated') is False and 'replay harness error' not in str(rp.get('detail')) else str(rp.get('detail'))[:300]
                if sample['oracle_on_real_code'] == 'holds':
                    validated += 1
                else:
                    inconclusive.append('witness of %s %s: the oracle holds in the model but not on the real code: %s' % (
                        c['fn'], spec['shard'], sample['oracle_on_real_code']))
                samples.append(sample)
            else:
                inconclusive.append('vacuity guard: no witness for %s %s: %s' % (
                    c['fn'], spec['shard'], (r.get('message') or '')[:300]))
            continue
        tot['paths'] += r.get('paths', 0)
        tot['completed'] += r.get('completed_paths', 0)
        tot['nontrivial'] += r.get('nontrivial_paths', 0)
        if r.get('state') == 'confirmed':
            continue
        if r.get('state') == 'counterexample':
            rp = run_replay(c.get('module') or modname, c['fn'], r['args'], spec['shard'], spec['bounds'])
            validated += 1
            row['replay'] = rp
            if rp.get('violated'):
                blob = {'property': prop, 'module': c.get('module') or modname, 'condition': c['fn'], 'args': r['args'],
                        'shard': spec['shard'], 'bounds': spec['bounds'], 'solver_message': r.get('message'),
                        'replay_detail': rp.get('detail')}
                h = hashlib.sha256(json.dumps(blob, sort_keys=True, default=repr).encode()).hexdigest()[:10]
                path = os.path.join(repl_dir, '%s-%s.json' % (prop, h))
                json.dump(blob, open(path, 'w'), indent=1, default=repr)
                violations.append((path, c['fn'], r['args'], rp.get('detail')))
            else:
                inconclusive.append('counterexample of %s %s did not reproduce on the real code (encoding/stub wrong?): '
                                    'args=%s solver=%s replay=%s' % (c['fn'], spec['shard'], r['args'],
                                                                      (r.get('message') or '')[:300], rp))
        else:
            inconclusive.append('%s %s: %s %s' % (c['fn'], spec['shard'], r.get('crosshair_state', ''),
                                                  (r.get('message') or '')[:300]))
    for e in extra:
        shard_table.append({'condition': e.get('name'), 'mode': 'smt', 'state': e.get('state'),
                            'queries': e.get('queries', 1), 'solver_s': e.get('solver_s', 0.0),
                            'detail': e.get('detail')})
        tot['queries'] += e.get('queries', 1)
        tot['solver_s'] += e.get('solver_s', 0.0)
        validated += e.get('validated', 0)
        if e.get('sample') is not None:
            samples.append(e['sample'])
        if e.get('state') == 'confirmed':
            continue
        if e.get('state') == 'violation':
            blob = {'property': prop, 'module': modname, 'condition': e.get('name'), 'args': e.get('args'),
                    'smt': True, 'replay_detail': e.get('detail')}
            h = hashlib.sha256(json.dumps(blob, sort_keys=True, default=repr).encode()).hexdigest()[:10]
            path = os.path.join(repl_dir, '%s-%s.json' % (prop, h))
            json.dump(blob, open(path, 'w'), indent=1, default=repr)
            violations.append((path, e.get('name'), e.get('args'), e.get('detail')))
        else:
            inconclusive.append('%s: %s' % (e.get('name'), e.get('message') or e.get('detail')))

    # ---- 5. stub validators (translation validation of the models against the real libraries)
    validators = []
    if hasattr(H, 'validate_models'):
        try:
            validators = H.validate_models()
        except Exception as ex_:
            validators = [{'name': 'validate_models', 'vectors': 0, 'differences': -1, 'error': repr(ex_)}]
        for v in validators:
            validated += v.get('vectors', 0)
            if v.get('violation'):
                # a concrete run of the REAL code (real libraries, no model) that breaks the property: reported as a
                # violation found by the stub validator (concrete testing), not by the solver
                blob = {'property': prop, 'module': modname, 'condition': 'validate_models:' + str(v.get('name')),
                        'args': v.get('violation'), 'found_by': 'concrete validator on the real code (not a solver verdict)'}
                hh = hashlib.sha256(json.dumps(blob, sort_keys=True, default=repr).encode()).hexdigest()[:10]
                path = os.path.join(repl_dir, '%s-%s.json' % (prop, hh))
                json.dump(blob, open(path, 'w'), indent=1, default=repr)
                violations.append((path, blob['condition'], v.get('violation'), v.get('error')))
            elif v.get('differences', 0) != 0:
                inconclusive.append('model validator %s: %s differences %s' % (v.get('name'), v.get('differences'),
                                                                              v.get('error', '')))

    wall = time.time() - t_start
    n_conf = sum(1 for r in shard_table if r['mode'] in ('check', 'smt') and r['state'] == 'confirmed')
    n_obl = sum(1 for r in shard_table if r['mode'] in ('check', 'smt'))
    tiers_desc = {}
    for c in H.CONDITIONS:
        t = c['tiers'].get(tier) or c['tiers']['quick']
        if t:
            tiers_desc[c['fn']] = {'bounds': t.get('bounds', {}), 'n_shards': len(t.get('shards') or [{}]),
                                   'timeout_s': t.get('timeout', 120), 'what': c.get('what')}
    evidence = {
        'property_id': prop, 'tier': tier if tier in ('quick', 'thorough') else 'quick', 'seed': seed, 'level': LEVEL,
        'coverage': {
            'evaluations': max(tot['paths'], 1) if not inconclusive or tot['paths'] else tot['paths'],
            'distinct_nontrivial': tot['nontrivial'],
            'rule': 'one evaluation = one symbolic execution path of the real code explored by CrossHair (a distinct '
                    'path condition = a distinct class of inputs/schedules/fault plans); a path is non-trivial when it '
                    'ran to the oracle and hit the harness\' mechanism tag (%s). Deciding step: CrossHair/z3 exhausted '
                    'the path tree (CONFIRMED) of every shard within the stated bounds; nothing is sampled.' % (
                        ', '.join(sorted(set(str(c.get('nontrivial')) for c in H.CONDITIONS)))),
            'samples': samples or [{'note': 'no witness produced'}],
            'states': max(tot['paths'], 1),
            'transitions': max(tot['queries'], 1),
            'traces_validated_against_impl': validated,
            'exhaustive': (not inconclusive and not violations),
            'explanation': getattr(H, 'EXPLANATION', ''),
            'technique': 'bounded symbolic execution of the real code (CrossHair 0.0.110 + z3 5.1.0), all paths '
                         'within bounds; counterexamples replayed on real code',
            'functions_encoded': [f for f in H.FUNCTIONS if f not in missing],
            'functions_declared_but_missing_in_source': missing,
            'source_root': SRC,
            'source_sha256_16': digests,
            'conditions': tiers_desc,
            'stubs': getattr(H, 'STUBS', []),
            'outside_the_claim': getattr(H, 'OUTSIDE', []),
            'queries_discharged': tot['queries'],
            'solver_time_s': round(tot['solver_s'], 2),
            'obligations': n_obl,
            'discharged': n_conf,
            'paths_completed_to_oracle': tot['completed'],
            'shards': shard_table,
            'known_findings': known_state,
            'model_validators': validators,
            'inconclusive': inconclusive,
        },
        'assumptions': getattr(H, 'ASSUMPTIONS', []),
        'wall_s': round(wall, 2),
        'violations': len(violations),
    }
    json.dump(evidence, open(os.path.join(evid_dir, prop + '.json'), 'w'), indent=1, default=repr)

    print('%s %s: %d/%d obligations confirmed, %d paths, %d solver queries (%.1f s solver), wall %.1f s' % (
        prop, tier, n_conf, n_obl, tot['paths'], tot['queries'], tot['solver_s'], wall))
    if violations:
        for path, cond, args, detail in violations:
            print('counterexample %s%s -> %s' % (cond, json.dumps(args, default=repr), detail))
            print('VIOLATION property=%s replay=%s' % (prop, path))
        return 1
    if inconclusive:
        for m in inconclusive:
            print('INCONCLUSIVE property=%s %s' % (prop, m))
        return 3
    return 0


if __name__ == '__main__':
    sys.exit(main())
