"""Per-process context shared between the runner and the harness condition functions."""
import collections

SHARD = {}          # concrete parameters fixed for this shard (cassette type, fault kind, ...)
BOUNDS = {}         # numeric bounds of this tier (referenced from `pre:` lines through B())
MODE = 'check'      # 'check' | 'witness' | 'replay'
REAL = False      # replay: use the real libraries instead of the models wherever a real counterpart exists
EXCLUDED = set()    # ids of known-finding regions that are currently excluded (their witness still reproduces)
WITNESS_TAG = None
CURRENT_FN = None

COMPLETED = [0]     # paths on which the oracle was evaluated
NONTRIVIAL = [0]    # … of which the harness' non-trivial tag was hit
TAGCOUNT = collections.Counter()
_tags = set()


def B(name, default=None):
    # a shard may override a bound of its tier: key 'b.<NAME>' in the shard
    v = SHARD.get('b.' + name)
    if v is None:
        v = BOUNDS.get(name)
    if v is None:
        v = default
    assert v is not None, 'bound %s not set' % name
    return v


def S(name, default=None):
    return SHARD.get(name, default)


_GLOBALS_SNAPSHOT = []


def remember_module_state(mod):
    """called by the loader right after a module of the code under test was executed"""
    with untraced():
        for attr, val in list(vars(mod).items()):
            if attr.startswith('__') or type(val) not in (dict, list, set, collections.OrderedDict):
                continue
            _GLOBALS_SNAPSHOT.append((val, type(val)(val)))


def _reset_module_state():
    """Every symbolic path stands for a run in a fresh process: module-level containers of the code under test (memo
    tables, registries a change may introduce) are put back to their state right after import.  Without this a cache
    filled on one path changes the branches of the next and CrossHair aborts with NotDeterministic (seed C01-E)."""
    with untraced():
        for live, saved in _GLOBALS_SNAPSHOT:
            if not live and not saved:
                continue
            live.clear()        # never compare contents: they may be dead symbolic values of the previous path
            if isinstance(live, list):
                live.extend(saved)
            else:
                live.update(saved)


def begin():
    """call at the start of every condition body (one symbolic path = one call)"""
    _tags.clear()
    _reset_module_state()


def mark(tag):
    """record that this path exercised mechanism `tag` (concrete control flow only)"""
    _tags.add(tag)


def excluded(finding_id, region_holds):
    """True when this path lies in the region of a known finding that is currently excluded from the claim.
    `region_holds` is evaluated by the caller on the (symbolic) parameters, so it forks the path."""
    if finding_id in EXCLUDED and region_holds:
        return True
    return False


def done(ok, nontrivial_tag=None):
    """call with the oracle's verdict at the end of every condition body"""
    COMPLETED[0] += 1
    for t in _tags:
        TAGCOUNT[t] += 1
    hit = (nontrivial_tag is None) or (nontrivial_tag in _tags)
    if hit:
        NONTRIVIAL[0] += 1
    if MODE == 'witness':
        tag = WITNESS_TAG or nontrivial_tag
        if tag is None or tag in _tags:
            return False        # a "counterexample" of the twin = a concrete witness reaching the mechanism
        return True
    return ok


def pick(x, choices):
    """the concrete member of `choices` equal to the (symbolic) x: forks once per choice, afterwards x is a plain
    Python constant and can be hashed / used as a dict key without realisation"""
    for c in choices:
        if x == c:
            return c
    raise AssertionError('value outside the declared choices')


class _NullCtx(object):
    def __enter__(self):
        return self

    def __exit__(self, *a):
        return False


def untraced():
    """context manager: run a block whose data is fully concrete (every solver variable it depends on was turned into
    a constant by pick()) with CrossHair's tracing switched off - plain Python speed, same semantics"""
    try:
        from crosshair.tracers import NoTracing, is_tracing
        if is_tracing():
            return NoTracing()
    except Exception:
        pass
    return _NullCtx()


def resumed():
    """context manager: switch tracing back on inside an untraced() block, to read a solver variable"""
    try:
        from crosshair.tracers import ResumedTracing, is_tracing
        if MODE in ('check', 'witness') and not is_tracing():
            return ResumedTracing()
    except Exception:
        pass
    return _NullCtx()
